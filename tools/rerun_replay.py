#!/usr/bin/env python3
"""Re-run the execution stored in a replay file and print raw stdout (cat -v it)."""
import base64, json, sys, os, subprocess
sys.path.insert(0, os.path.dirname(os.path.dirname(os.path.abspath(__file__))))
from vlib import runner
rep = json.load(open(sys.argv[1]))
run = rep['violation']['run']
r = runner.run_delta(run['args'], base64.b64decode(run['stdin_b64']), env=run['env'], mode=run['mode'], pty_size=tuple(run['pty_size']), **({'parent_argv': run['parent_argv']} if run.get('parent_argv') else {}))
sys.stdout.buffer.write(r.out); sys.stderr.buffer.write(r.err); print('rc', r.rc)
runner.cleanup()
