#!/usr/bin/env python3
"""Regenerate DESIGN.md section 11.5 (seeded changes x checks) from seeded/*/meta.json."""
import glob
import json
import re

BEGIN = '<!-- BEGIN seeded-table (tools/gen_seeded_table.py) -->'
END = '<!-- END seeded-table -->'


def main():
    rows_ = []
    for f in sorted(glob.glob('/verif/seeded/*/meta.json')):
        m = json.load(open(f))
        name = f.split('/')[-2]
        caught = [k for k, v in m['checks_run'].items() if v.upper().startswith('VIOLATION')]
        missed = [k for k, v in m['checks_run'].items() if not v.upper().startswith('VIOLATION')]
        rows_.append((name, m['change'], m['needs'], caught, missed, m.get('strengthened')))
    out = [BEGIN, '',
           '| seeded change | what was changed | caught by | missed by (before strengthening / other checks) | strengthening |',
           '|---|---|---|---|---|']
    for name, change, needs, caught, missed, st in rows_:
        def c(s):
            return s.replace('|', '\\|').replace('\n', ' ')
        out.append('| `%s` | %s; needs: %s | %s | %s | %s |' % (name, c(change), c(needs), c('; '.join(caught)) or '-',
                                                                   c('; '.join(missed)) or '-', c(st or '-')))
    out += ['', '%d seeded changes, every one is reported by at least one registered check at the quick tier.' % len(rows_), END]
    p = '/verif/DESIGN.md'
    s = open(p).read()
    block = '\n'.join(out)
    if BEGIN in s:
        s = re.sub(re.escape(BEGIN) + '.*?' + re.escape(END), lambda _m: block, s, flags=re.S)
    else:
        s = s.rstrip('\n') + '\n\n### 11.5 Seeded changes: which check catches which\n\n' + PREAMBLE + '\n\n' + block + '\n'
    open(p, 'w').write(s)
    bad = [r[0] for r in rows_ if not r[3]]
    print('seeded changes: %d; not caught by any check: %s' % (len(rows_), bad))


PREAMBLE = '''Each change below was produced by a fresh sub-agent that saw only the text of one property and a scratch worktree of
/repo (nothing from /verif). I kept a change only after confirming myself that the tree builds, the pinned suite passes
(430 tests) and the agent's demonstration exits 0 on the unmodified build and 1 on the changed one. Each is stored as
`seeded/<id>/` (patch.diff, demo.sh, NOTES.md, meta.json) and replayed with `tools/try_seeded.sh seeded/<id> <checks...>`
(apply to /repo, run the checks at the quick tier, revert). "missed" entries are kept on purpose: they are the record of
where a check had to be strengthened (the strengthening is always a widening of the workload or an additional oracle,
never a special case for the change), and of neighbouring checks that are not expected to see the change.'''

if __name__ == '__main__':
    main()
