#!/usr/bin/env python3
"""Marks in seeded/<id>/meta.json whether patch.diff still applies to /repo HEAD; where it does not, tries to carry the change
over with a 3-way merge in a scratch worktree under /tmp (patch.head.diff).  Run after repairs have been merged."""
import glob, json, os, subprocess, shutil
V = os.path.dirname(os.path.dirname(os.path.abspath(__file__)))
head = subprocess.run(['git', '-C', '/repo', 'rev-parse', '--short', 'HEAD'], capture_output=True, text=True).stdout.strip()
wt = '/tmp/seeded-apply-wt'
subprocess.run(['git', '-C', '/repo', 'worktree', 'remove', '--force', wt], capture_output=True)
subprocess.run(['git', '-C', '/repo', 'worktree', 'add', '-q', '--detach', wt, 'HEAD'], check=True)
stats = {'applies': 0, 'carried': 0, 'stale': 0}
try:
    for d in sorted(glob.glob(V + '/seeded/*/')):
        mp = d + 'meta.json'
        if not os.path.exists(mp):
            continue
        m = json.load(open(mp))
        def ok(p):
            return os.path.exists(p) and subprocess.run(['git', '-C', '/repo', 'apply', '--check', p], capture_output=True).returncode == 0
        if ok(d + 'patch.diff'):
            m.pop('applies_to_current_tree', None)
            if os.path.exists(d + 'patch.head.diff'):
                os.unlink(d + 'patch.head.diff')
            stats['applies'] += 1
        else:
            if not ok(d + 'patch.head.diff'):
                subprocess.run(['git', '-C', wt, 'reset', '-q', '--hard'], check=True)
                r = subprocess.run(['git', '-C', wt, 'apply', '-3', d + 'patch.diff'], capture_output=True)
                unmerged = subprocess.run(['git', '-C', wt, 'diff', '--name-only', '--diff-filter=U'], capture_output=True, text=True).stdout.strip()
                if r.returncode == 0 and not unmerged:
                    open(d + 'patch.head.diff', 'w').write(subprocess.run(['git', '-C', wt, 'diff', 'HEAD'], capture_output=True, text=True).stdout)
                elif os.path.exists(d + 'patch.head.diff'):
                    os.unlink(d + 'patch.head.diff')
            if ok(d + 'patch.head.diff'):
                m['applies_to_current_tree'] = ('patch.diff was made against the tree of its round; patch.head.diff is the same change carried over to %s '
                                                '(3-way merge, no conflict)' % head)
                stats['carried'] += 1
            else:
                m['applies_to_current_tree'] = ('no: later repairs rewrote the lines this change touches (it was confirmed and caught on the tree of its round, '
                                                'see checks_run)')
                stats['stale'] += 1
        json.dump(m, open(mp, 'w'), indent=1, ensure_ascii=False)
finally:
    subprocess.run(['git', '-C', '/repo', 'worktree', 'remove', '--force', wt], capture_output=True)
    subprocess.run(['git', '-C', '/repo', 'worktree', 'prune'], capture_output=True)
    shutil.rmtree(wt, ignore_errors=True)
print('seeded patches: %(applies)d apply as they are, %(carried)d carried over (patch.head.diff), %(stale)d no longer applicable' % stats)
