#!/usr/bin/env python3
"""Writes MANIFEST.json from the table below (kept in one place so it stays valid)."""
import json, os, subprocess
V = os.path.dirname(os.path.dirname(os.path.abspath(__file__)))

CHECKS = {
 'C01': ('exploration', 'model-generated diffs x unified-view option sets; independent terminal model + reserved-colour row tagging; every hunk line matched once, in order, inside its file section',
         'runtime monitor: reference input model + terminal-model oracle over generated executions of the real binary', '5/C01'),
 'C02': ('exploration', 'line law (one output line per input line) on every run and text law on every non-exempt line, over real git output and synthetic inputs of every kind x option sets with --color-only given on the command line and/or through a generated gitconfig',
         'runtime monitor: line-for-line input/output comparison with the terminal model as visible-text oracle', '5/C02'),
 'C03': ('exploration', 'generated and structurally mutated inputs of every kind x hostile option sets accepted by delta, run on a build with overflow checks and debug assertions; monitors exit status, stderr, signals, consumption of stdin, peak RSS, bounded termination',
         'runtime monitor: crash/hang/allocation oracle on the real binary built with overflow checks (sanitizer tiers in thorough)', '5/C03'),
 'C04': ('exploration', 'byte-exact in-order comparison of pass-through lines (real git log/status/branch output, prose, embedded SGR, CRLF, invalid UTF-8, over-long lines) alone and interleaved with rendered sections',
         'runtime monitor: byte-exact ordered-subsequence oracle with anchors for rendered sections', '5/C04'),
 'C05': ('exploration', 'expected old/new numbers computed from the generated diff model and compared with the number fields parsed from tagged gutters in unified (-n) and side-by-side view, plus hunk-header number and path',
         'runtime monitor: reference counter model vs gutter fields decoded by the terminal model', '5/C05'),
 'C06': ('exploration', 'soundness of emphasis (delete emphasised cells from both lines -> same text), no emphasis on unpaired/identical lines, single-run extent, pairing rules for distance 0 and 1; exhaustive over all pairs of short token sequences over a small alphabet x 16 regex/distance combinations, random realistic sub-hunks in unified and side-by-side view',
         'runtime monitor: per-cell style-class oracle over exhaustively enumerated and random sub-hunks', '5/C06'),
 'C07': ('exploration', 'per row: width, panel boundary column, line kinds per panel; per line and side: fragments across rows re-joined and compared with the model line, wrap limits and truncation rules',
         'runtime monitor: geometry invariants + lossless-reassembly oracle over tagged side-by-side rows', '5/C07'),
 'C08': ('exploration', 'relational monitor over pairs of runs (real git --color=never/always and a synthetic colouriser covering git\'s layouts): byte equality; per-cell rendition equality for specially coloured and raw-styled lines',
         'runtime monitor: relational (coloured vs plain) oracle + terminal-model cell comparison', '5/C08'),
 'C09': ('exploration', 'terminal-model state checked at every newline of every output row over a mixed workload (all views, wrapping/truncation forced, hyperlinks, pipe and pty)',
         'runtime monitor: online terminal-state checker (SGR/OSC 8 balance, no split sequences)', '5/C09'),
 'C10': ('exploration', 'stdout(A1..An) compared byte-for-byte with the concatenation of stdout(Ai) for sequences of complete file sections, all ordered pairs of (kind, ending) shapes in the thorough tier; repeated fresh-process runs for determinism',
         'runtime monitor: relational (concatenation / re-run) oracle over section histories', '5/C10'),
 'C11': ('exploration', 'input fed line by line with logical quiescence detection (stdin pipe drained and main thread asleep in read(0)); at every prefix: bytes written so far are a prefix of the final output and of an independent run on that prefix, the number of hunk lines held back is bounded by the open run and the buffer size, hook trace shows empty output buffer and bounded line buffers; peak RSS compared for 10^3 vs 10^5 lines',
         'runtime monitor: paced feeding with /proc-based quiescence + prefix relations + hook-trace invariants', '5/C11'),
 'C12': ('exploration', 'painted cells decoded by the terminal model compared with an independent reference parser of the style language, for 11 style-typed options x enumerated (<=3 tokens over every token class, all 256 palette numbers) and random style strings x 24-bit/256-colour mode; invalid strings must be rejected; --show-config round trip must reproduce the rendering',
         'runtime monitor: reference parser vs painted cells, plus show-config round-trip relation', '5/C12'),
 'C13': ('exploration', 'sentinel placements over the source lattice (command line, [delta], GIT_CONFIG_PARAMETERS, custom features through every enabling mechanism, nested features, built-in feature defaults, --no-gitconfig) resolved by `delta --show-config` and compared with a resolver written from the documentation; every placement re-resolved in fresh processes for determinism',
         'runtime monitor: reference resolver vs --show-config over an enumerated small-scope lattice, repeated runs for determinism', '5/C13'),
 'C14': ('exploration', 'rendered rows walked strictly against the generated section model: exactly one file header row per section with exactly the expected text (paths, label, arrow, mode/binary note) and one header row per hunk carrying the fragment',
         'runtime monitor: strict row-sequence oracle against the input reference model', '5/C14'),
 'C15': ('exploration', 'pairs of runs differing only in syntax theme (or in a file name of the same kind) compared cell by cell: characters, widths, backgrounds, attributes, links identical; foreground may differ only inside syntax-marked style slots',
         'runtime monitor: relational cell-by-cell oracle over theme pairs and rename pairs', '5/C15'),
 'C16': ('exploration', 'grep result models serialised as coloured git grep output, plain text (unambiguous class only) and rg --json, delivered through stub git/rg and stdin with an impersonated parent; every hit compared for path, number, code, kind and highlighted submatch spans in both layouts',
         'runtime monitor: reference result model vs tagged rows decoded by the terminal model', '5/C16'),
 'C17': ('exploration', 'blame stream models and real git blame output; per row code, number and attribution compared; the sequence of row colours checked against the three colour invariants (same commit same colour, neighbour with different commit different colour, reappearing commit keeps its colour unless it would collide)',
         'runtime monitor: sequence invariants over row colours + per-row reference comparison', '5/C17'),
 'C18': ('fault_enumeration', 'EPIPE injected by an LD_PRELOAD write(2) shim at every write call 1..N of each case (stdout and pager mode), real closed pipes, stub pagers quitting early; exit status pass-through with stub git/rg/differ; pager selection lattice with recording stub pagers (bytes delivered, less arguments, LESSCHARSET); delta observed not to exit before the pager\'s last act',
         'runtime monitor: fault injection at every write call + recording stub pagers + exit-status oracle', '5/C18'),
 'C19': ('exploration', 'pairs of runs with hyperlinks off/on: OSC-8-stripped bytes identical; every link closed on its line; file and commit link targets recomputed independently from the input model and the displayed numbers',
         'runtime monitor: relational (hyperlinks on vs off) oracle + link-target reference model', '5/C19'),
 'C20': ('exploration', 'every feasible order of the critical sections of the calling-process cell (background store vs known store vs each query, incl. "query already waiting") forced through cfg-guarded gates for 10 scenarios, plus jitter/unforced runs (and a ThreadSanitizer build in the thorough tier); recorded traces replayed offline against a sequential register model, stdout compared across schedules, deadlock decided from thread states',
         'runtime monitor: forced-schedule enumeration at hook gates + offline trace checker + TSan', '5/C20'),
}
NOT_APPLICABLE = {}

def main():
    props = [json.loads(l) for l in open(os.path.join(V, 'properties.jsonl'))]
    hooks = subprocess.run(['git', '-C', '/repo', 'log', '--format=%H %s'], stdout=subprocess.PIPE).stdout.decode().splitlines()
    hook_commits = [l.split()[0] for l in hooks if 'verif hooks' in l]
    checks = []
    na = []
    for p in props:
        pid = p['id']
        if pid in CHECKS:
            cat, text, tech, ref = CHECKS[pid]
            checks.append({
                'property_id': pid,
                'quick_cmd': './check %s --tier quick' % pid,
                'thorough_cmd': './check %s --tier thorough' % pid,
                'evidence_file': 'evidence/%s.json' % pid,
                'replay_cmd_template': './check %s --replay {path}' % pid,
                'engine': 'vlib',
                'level_claimed': {'category': cat, 'text': text, 'design_ref': 'DESIGN.md section ' + ref},
                'level_note': 'Trusted base: vlib terminal model and generators (python3 stdlib), the stub executables under stubs/, '
                              'cargo/rustc building /repo with --cfg dandavison_delta_verif (hooks inert unless DELTA_VERIF_* set). '
                              'Says nothing about inputs, option sets, schedules or fault points that were not executed.',
                'technique': tech,
            })
        else:
            na.append({'property_id': pid, 'reason': NOT_APPLICABLE.get(pid, 'check not built yet in this revision of the framework (planned, see DESIGN.md section 5)')})
    m = {
        'version': 1,
        'setup_cmd': './setup.sh',
        'hooks': {
            'guard': '--cfg dandavison_delta_verif',
            'enable': 'RUSTFLAGS="--cfg dandavison_delta_verif --check-cfg cfg(dandavison_delta_verif)" cargo build --release (vlib/build.py, variant hooks)',
            'baseline_off_cmd': 'cd /repo && cargo test --workspace --no-fail-fast --offline',
            'source_commits': hook_commits,
            'add_only': True,
        },
        'engines': [{'name': 'vlib', 'path': 'vlib/', 'serves_properties': sorted(CHECKS),
                     'kind_free_text': 'python3 runtime-monitoring framework: hermetic runner for the real delta binary (pipe/pty/paced/faulted/pager modes), independent terminal model, input reference models, relational and trace monitors'}],
        'checks': checks,
        'not_applicable': na,
        'notes': 'Exit codes: 0 held on everything explored (KNOWN-FINDING lines allowed), 1 VIOLATION, 2 harness failure/inconclusive. VERIF_SEED seeds every generator.',
    }
    with open(os.path.join(V, 'MANIFEST.json'), 'w') as f:
        json.dump(m, f, indent=1)

if __name__ == '__main__':
    main()
