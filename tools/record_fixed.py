#!/usr/bin/env python3
"""Rebuilds the 'fixed' entries of known_findings.json from the fix: commits in /repo (hashes change when history is rewritten)."""
import json, os, subprocess
V = os.path.dirname(os.path.dirname(os.path.abspath(__file__)))
PROP = [  # (subject fragment, property ids, key that used to be reported)
 ("emit buffered hunk lines at a 'diff' line", 'C01,C10,C11', "c01:expected a '+' line, found a file row / c10:concat:*/+ -> mode_only/h"),
 ("no spurious file header at end of 'diff -u' input", 'C01,C14', "c01:expected a '-' line, found a blank row (plain diff, file-style raw)"),
 ('do not underflow when a space-filled line is wider', 'C03', 'panic|delta::paint::Painter::paint_lines|attempt to subtract with overflow'),
 ('count removed lines for every plain diff source', 'C01', "c01: '--- x' content line taken for a header in diff -ru output"),
 ("do not panic on 'diff --git ' without paths", 'C03', 'panic|delta::handlers::diff_header::get_repeated_file_path_from_diff_line|index out of bounds; panic|...remove_surrounding_quotes|begin > end'),
 ('hunk headers without usable coordinates', 'C03', 'panic|delta::handlers::hunk_header::*|ParseIntError / subtract with overflow; panic|delta::features::line_numbers::*|index out of bounds / add with overflow'),
 ('blame metadata padding must not underflow', 'C03', 'panic|delta::handlers::blame::format_blame_metadata|attempt to subtract with overflow'),
 ('blame colour choice must not abort', 'C03,C17', 'unreachable|is_repeat cannot be true when key has no color'),
 ('rg --json submatches', 'C03,C16', 'panic|delta::handlers::grep::make_style_sections|byte index not a char boundary / out of bounds; grep.rs n - 1 overflow; expand_tabs add overflow'),
 ('combined-diff line starting with a multi-byte character', 'C03', 'panic|delta::handlers::hunk::new_line_state|end byte index N is not a char boundary'),
 ('ANSI iterator must emit an element', 'C03,C08', 'panic|delta::ansi::ansi_strings_iterator::{closure}|end byte index N is not a char boundary'),
 ('check the display width, not the grapheme count, of the wrap symbols', 'C03', "panic|...superimpose|String mismatch (double-width wrap symbol accepted)"),
 ('get_style must not abort', 'C03', 'unreachable|Unreachable code reached in get_style'),
 ('--color-only with rg --json input panicked', 'C03', 'panic|...superimpose|String mismatch via hunk_header::write_to_output_buffer'),
 ('wrapping never terminated', 'C03', 'hang (side-by-side, width 6/7, wrap-max-lines unlimited, double-width character)'),
 ("write a pending file header before a 'Submodule", 'C10,C14', 'c10:concat:start->mode_only/h etc. followed by a submodule log section; c14 duplicated header'),
 ("file hyperlink of a binary file", 'C19', 'c19:file-target:file for binary sections'),
 ('entirely a whitespace error in git', 'C08', 'c08:coloured-differs:real (added whitespace-only line coloured with color.diff.whitespace)'),
 ('--color-only with an omitted commit style', 'C02', 'c02:line-count:commit:commit-style'),
 ("--color-only on concatenated 'diff -u' output", 'C02', 'c02:text (header written before buffered lines)'),
 ('truncate_str must stop adding text', 'C07', 'c07:row-too-wide, c07:truncated-text-not-prefix, c07:reassembly'),
 ('priority among builtin features enabled by flags', 'C13,C10', 'c13:nondeterministic:determinism-flags'),
 ('changed lines preceding a merge-conflict region', 'C01', 'c01:combined:kind (buffered lines emitted after the conflict region)'),
 ('mode-change-only file header was printed twice', 'C14,C01', 'c01:real:expected a line, found a file row (git log -p: mode-only section last in a commit)'),
 ('truncate_str_short must return a prefix', 'C03', 'panic|delta::paint::get_syntax_style_sections_for_lines|end byte index N is not a char boundary'),
 ("Display for Style omitted the 'hidden'", 'C12', 'c12:show-config-round-trip (hidden)'),
 ('grep line whose path holds a tab panicked', 'C03,C16', "panic|delta::paint::superimpose_style_sections::superimpose|String mismatch...|via:delta::handlers::grep::*_emit_classic_format_code / via:delta::handlers::hunk_header::write_to_output_buffer"),
 ('grep path regexes let a colon precede the extension dot', 'C16', "c16:path:plain / c16:group-header:plain (code starting with '.word' + separator)"),
 ('binary file of a combined diff was reported without its name', 'C14', "c14:header-missing:binary_cc ('diff --cc F' + 'Binary files differ' rendered with no file name)"),
 ("line of diff -r output was dropped after a file section", 'C14,C04', "c14:header-missing:binary_bare (bare 'Binary files X and Y differ' after a file section of diff -ru output lost)"),
 ("--color-only emitted decoration lines for", 'C02', "c02:line-count:* (--color-only --file-style 'blue box': 11 output lines for 7 input lines)"),
 ("--show-config and --version reported BrokenPipe as an error", 'C18', "c18:reader-gone:status-1 (delta --show-config / --version with a closed stdout: exit 1 and an error message)"),
 ("--help, --parse-ansi and --generate-completion failed loudly", 'C18', "c18:fault:status-1 (--help), c18:fault:crash:panic|delta::subcommands::parse_ansi::parse_ansi|failed printing to stdout, c18:fault:crash:panic|...generate_completion_file|Failed to write to generated file"),
 ("headers of sections without ---/+++ lines ignored --relative-paths", 'C19,C14', "c19:file-text / c19:file-target:file (mode-only / empty added / removed sections under --relative-paths + GIT_PREFIX: name not relativized, link to <root>/<prefix>/<name>)"),
 ("ANSI iterator counted control characters inside an escape sequence as text", 'C03', "panic|delta::ansi::ansi_strings_iterator::{closure}|end byte index N is not a char boundary (via get_syntax_style_sections_for_lines, draw::write_boxed); panic|delta::ansi::parse_style_sections|end byte index N is not a char boundary"),
 ("lines with invalid UTF-8 kept their escape sequences in the stripped copy", 'C03', "panic|...superimpose|String mismatch...|via:delta::handlers::hunk::*handle_hunk_line (word-diff) and via:delta::handlers::grep::*_emit_classic_format_code"),
 ("grep line whose line number does not fit usize panicked", 'C03,C16', "panic|...superimpose|String mismatch...|via:delta::handlers::hunk_header::write_to_output_buffer ('rs:18446744073709551616:x'); panic|delta::handlers::grep::get_code_style_sections|start byte index N is not a char boundary"),
 ("coloured combined-diff line with a tab among its prefix columns panicked", 'C03', "panic|...superimpose|String mismatch...|via:delta::handlers::hunk::*handle_hunk_line (combined diff, moved-colour line '+<TAB>x')"),
 ("side-by-side wrapping panicked when syntax and diff sections split a grapheme differently", 'C03,C07', "panic|delta::wrapping::wrap_minusplus_block::wrap_syntax_and_diff|assertion `_` failed: syntax and diff wrapping differs; panic|...superimpose|String mismatch...|via:delta::features::side_by_side::paint_minus_or_plus_panel_line / paint_zero_lines_side_by_side (formerly an open finding)"),
 ("grep hit whose raw line and parsed code disagree panicked", 'C03', "panic|...superimpose|String mismatch...|via:delta::handlers::grep::*_emit_classic_format_code ('!<C3>:<ESC><TAB>](' under git grep)"),
 ("raw line of a combined diff with a non-ASCII prefix column panicked", 'C03', "panic|...superimpose|String mismatch...|via:delta::handlers::hunk::*handle_hunk_line ('@@@@@ -6@' + '<9F>+z >', found by the thorough tier)"),
 ("two enormous lines of tabs or zero-width characters aborted delta", 'C03', "signal|6 (memory allocation failed in align::Alignment::new: removed and added line of 2^20 tabs each; found by the huge-input items of the thorough tier)"),
 ("file header of a rename or copy kept git's quotes around a quoted path", 'C14', "c14:header-text:renamed / renamed_changed / copied (path quoted by git on the rename/copy lines shown with its quotes)"),
 ("blame line with a one-character author name was not recognised", 'C17', "c17:separator / c17:row-count (blame line whose author is a single character passed through unrendered)"),
 ("hunk header that no hunk line follows was dropped", 'C02,C14', "c02:line-count:* on a diff cut right after a hunk header ('@@ ... @@' at end of input or before 'diff'/'commit'/'@@')"),
 ("an enormous placeholder width or precision in a format string made delta panic or abort", 'C03', "panic|delta::format::pad|Formatting argument out of range|via:delta::handlers::blame::format_blame_line_number; panic|delta::features::line_numbers::format_line_number|capacity overflow; panic|delta::format::parse_line_number_format|Invalid width in format string: {nm:^N}; signal|6 (allocation failure with a width of 2^32)"),
 ("hunk header was dropped when a merge conflict region starts on the first line of the hunk", 'C14', "c14:combined:hunk-headers (found from a sub-agent's note; combined sub-check added)"),
 ("name of the common ancestor leaked from one merge conflict region into later ones", 'C10', "c10:concat:combined/h->combined/h (diff3-style region followed by a merge-style region; found from a sub-agent's note)"),
 ("a line that is not valid UTF-8 was emptied under --max-line-length 0", 'C01', "c01: line with an invalid byte shown as an empty row under --max-line-length 0 (found from a sub-agent's note)"),
 ("a '-Subproject commit' line without its '+' counterpart was dropped", 'C01', "c01: '-Subproject commit <hash>' of a deleted submodule / first hunk line '-Subproject commit <not a hash>' missing from the output (found from a sub-agent's note)"),
 ("in 'diff -u' output an added line '++ x' inside a hunk was taken for a '+++ ' file header line", 'C14,C01', "c14:header-duplicated-or-early (plain diff, added line '++ x'; found from a sub-agent's note)"),
 ("second of two 'diff -u' sections about the same two files got no file header", 'C14,C10', "c14:header-missing / c10:concat (plain diff, same file pair twice; found from a sub-agent's note)"),
 ('any JSON line with "type" begin/end/summary was silently dropped', 'C04', "c04:line-altered (a structured-log line such as {\"level\":\"info\",\"type\":\"end\"} vanished; found from a sub-agent's note)"),
 ("--no-gitconfig --features <builtin feature> did not enable the features that feature enables", 'C13', "c13:no-gitconfig-differs-from-empty-config (found from a sub-agent's note; family added)"),
 ("--show-config named palette colours 8-15 differently from run to run", 'C13', "c13:nondeterministic-text:* (found from a sub-agent's note; raw text of repeated runs is compared now)"),
 ("a hunk header that git coloured was truncated at --max-line-length", 'C08', "c08:equal (coloured and plain input differ: the coloured hunk header is cut at a small --max-line-length; found from a sub-agent's note)"),
 ("lines that are not valid UTF-8 kept their CR and were cut at a byte position", 'C09,C08,C04', "c09:malformed / sgr-leak (a line with an invalid byte beyond --max-line-length is cut inside an escape sequence); CR kept in coloured CRLF lines with an invalid byte (found from two sub-agents' notes)"),
 ("unused variable left behind by the side-by-side wrapping fix", 'C07', "(follow-up of the fix 8ed6a01: compiler warning only)"),
 ("blame commit hyperlink was padded and cut as if it were part of the hash", 'C09,C19', "c09:malformed:blame / c19:not-transparent:blame (--hyperlinks on a terminal with a width or precision on {commit}; found from two sub-agents' notes)"),
 ("a commit hyperlink could be inserted inside the URL of a hyperlink the line already had", 'C09', "c09:malformed:passthrough (control character inside OSC; the terminal model did not flag an ESC inside an OSC string before)"),
 ("a file whose name contains '{line}' or '{host}' got a hyperlink to another path", 'C19', "c19:file-target (found from a sub-agent's note)"),
 ("hunks of a deleted file were not highlighted in the file's language", 'C15', "c15:rename:colouring-depends-on-name (deleted foo.rs vs the same lines removed from foo.rs; found from a sub-agent's note; sub-check added)"),
 ("a wide character in a line-number format made side-by-side rows overflow", 'C07', "c07:truncated-* / row-width (number formats holding a double-width character; found from a sub-agent's note)"),
 ("with --hyperlinks the file path was printed in place of the line number when the absolute path is unknown", 'C19,C05', "(delta started in a directory that has been removed; found from a sub-agent's note, not generated by a check)"),
 ("an empty line of grep output without a line number was not shown", 'C16', "(rg --json record with \"line_number\":null and empty text; found from a sub-agent's note, not generated by a check)"),
 ("--hunk-header-style raw removed the line numbers from grep output", 'C16', "c16:line-number:* (found from a sub-agent's note; the option is varied now)"),
 ("blame line whose code looks like the end of blame metadata was split at the wrong place", 'C17', "c17:code (code holding 'timestamp number)'; found from a sub-agent's note; such code is generated now)"),
 ("the same for a one-character author name (blame metadata ends at the first timestamp)", 'C17', "c17:code (author of one character; found by the C17 check after the previous fix)"),
 ("blame lines of ignored revisions ('?' / '*' before the hash) were not recognised", 'C17', "(blame.markIgnoredLines / markUnblamableLines; found from a sub-agent's note)"),
 ("an enormous --wrap-max-lines made delta panic (arithmetic overflow)", 'C03', "panic|delta::wrapping::adapt_wrap_max_lines_argument|attempt to add with overflow; panic|delta::wrapping::WrapConfig::config_max_line_length|attempt to multiply with overflow"),
 ("an invalid --blame-timestamp-output-format made delta panic on the first blame line", 'C03', "panic|delta::handlers::blame::format_blame_metadata|a Display implementation returned an error unexpectedly"),
 ("a pager command that cannot be parsed made delta panic", 'C03,C18', "panic at src/main.rs (OutputType::from_mode(..).unwrap()) with DELTA_PAGER=\"less '\" (found from a sub-agent's note, not generated by a check)"),
 ("a merge conflict region that is never closed lost all its lines", 'C01,C03,C10', "c01:combined:conflict-structure / line-missing (unterminated region; found from three sub-agents' notes; such regions are generated now)"),
 ("--color-only put the file path or the navigate label in front of hunk header lines", 'C02', "c02:text:hunkheader (diff-so-fancy named as a feature; found from a sub-agent's note)"),
 ("the function-context line of 'git grep -p' without -n was shown with the line number 0", 'C16', "c16:header-number:color (found from a sub-agent's note)"),
 ("after a '\\ No newline at end of file' note the rest of a combined-diff hunk was read as a two-way diff", 'C01', "c01:combined:kind / :text (found from two sub-agents' notes; the note is generated inside combined hunks now)"),
 ("a quoted path that also contains a space was shown with its quotes and a/ b/ prefixes", 'C14', "c14:header-text:* (real git output for 'sp acé.txt'; found from a sub-agent's note)"),
 ("a binary file whose mode changed as well was reported without the binary note", 'C14', "c14:header-text:binary_mode_changed (found from a sub-agent's note; section kind added)"),
 ("delta <command> hung when the command wrote more to stderr than a pipe holds", 'C18,C03', "c18:stderr-flood:timeout (found from a sub-agent's note; sub-check added)"),
 ("the default language was looked up in the file system", 'C15', "c15:default-language:depends-on-directory (found from a sub-agent's note; sub-check added)"),
 ("a line starting with 'old mode ' outside a diff made delta swallow the rest of the input", 'C04,C03', "c04:line-altered / extra-output (found from a sub-agent's note; such text lines are generated now)"),
 ("an enormous --width made delta abort (memory allocation failed)", 'C03', "signal|6 (--width 100000000000000; found from a sub-agent's note; generated now)"),
 ("a huge --wrap-max-lines made delta allocate without bound when nothing fits in a panel", 'C03', "signal|6 (memory allocation of 1.6 GB failed in wrapping::wrap_line; found by C03 at seed 3 once the huge values were generated)"),
 ("lines differing by a zero-width character were paired at --max-line-distance 0", 'C06', "c06:distance-0-pairing / :sbs ('<U+0308>key' paired with ' key   ' at distance 0; found by the thorough tier)"),
]
log = subprocess.run(['git', '-C', '/repo', 'log', '--format=%H%x09%s', '--reverse'], stdout=subprocess.PIPE).stdout.decode().splitlines()
fixes = [l.split('\t', 1) for l in log if '\tfix:' in l]
p = os.path.join(V, 'known_findings.json')
d = json.load(open(p))
d['findings'] = [f for f in d['findings'] if f.get('status') != 'fixed']
unmatched = []
for sha, subj in fixes:
    hit = [x for x in PROP if x[0] in subj]
    if not hit:
        unmatched.append(subj)
        continue
    frag, props, key = hit[0]
    for pid in props.split(','):
        d['findings'].append({'property': pid, 'status': 'fixed', 'commit': sha[:12], 'key': key,
                              'what': subj[len('fix: '):],
                              'record': 'fixed: property=%s %s %s' % (pid, sha[:12], subj[len('fix: '):])})
json.dump(d, open(p, 'w'), indent=1, ensure_ascii=False)
print('fix commits:', len(fixes), 'unmatched:', unmatched)
