#!/usr/bin/env python3
"""Line-level and option-level minimisation of a crash replay (same crash signature)."""
import base64, json, sys, os
sys.path.insert(0, os.path.dirname(os.path.dirname(os.path.abspath(__file__))))
from vlib import runner, crash
rep = json.load(open(sys.argv[1]))
run = rep['violation']['run']
data = base64.b64decode(run['stdin_b64'])
args = run['args']
def sig(a, d):
    r = runner.run_delta(a, d, env=run['env'], mode=run['mode'], pty_size=tuple(run['pty_size']), **({'parent_argv': run['parent_argv']} if run.get('parent_argv') else {}))
    c = crash.classify(r)
    return c['signature'] if c else ('exit:%d' % r.rc if r.rc else None)
target = sig(args, data)
print('target', target)
pairs = []; i = 0
while i < len(args):
    if i + 1 < len(args) and not args[i + 1].startswith('--'): pairs.append(args[i:i + 2]); i += 2
    else: pairs.append(args[i:i + 1]); i += 1
def flat(ps): return [x for p in ps for x in p]
changed = True
while changed:
    changed = False
    for k in range(len(pairs)):
        t = pairs[:k] + pairs[k + 1:]
        if sig(flat(t), data) == target:
            pairs = t; changed = True; break
args = flat(pairs)
lines = data.split(b'\n')
changed = True
while changed:
    changed = False
    for k in range(len(lines)):
        t = lines[:k] + lines[k + 1:]
        if sig(args, b'\n'.join(t)) == target:
            lines = t; changed = True; break
# shorten lines
for k in range(len(lines)):
    l = lines[k]
    step = max(1, len(l) // 2)
    while step >= 1:
        pos = 0
        while pos < len(lines[k]):
            cand = lines[k][:pos] + lines[k][pos + step:]
            t = lines[:k] + [cand] + lines[k + 1:]
            if sig(args, b'\n'.join(t)) == target:
                lines = t
            else:
                pos += step
        step //= 2
print('args', args)
print('input', b'\n'.join(lines))
runner.cleanup()
