#!/bin/sh
# usage: tools/try_seeded_wt.sh <worktree with the seeded change applied> <check id>...
# Builds the hooks variant inside the worktree and runs the checks (quick) against that binary: /repo is not touched
# (for use while a long run that rebuilds from /repo is active).
wt=$1; shift
( cd "$wt" && CARGO_NET_OFFLINE=true CARGO_TARGET_DIR="$wt/target-hooks" CARGO_PROFILE_RELEASE_OVERFLOW_CHECKS=true \
  CARGO_PROFILE_RELEASE_DEBUG_ASSERTIONS=true CARGO_PROFILE_RELEASE_DEBUG=1 \
  RUSTFLAGS="--cfg dandavison_delta_verif --check-cfg cfg(dandavison_delta_verif)" \
  cargo build --release --offline --bin delta -j8 2>&1 | tail -1 )
bin="$wt/target-hooks/release/delta"
[ -x "$bin" ] || { echo "no binary"; exit 2; }
cd /verif
for c in "$@"; do
  out=$(VERIF_SKIP_BUILD=1 VERIF_DELTA_HOOKS="$bin" VERIF_EVIDENCE_DIR=/tmp/verif-seeded-evidence VERIF_SEED=${VERIF_SEED:-1} timeout 1500 ./check "$c" --tier ${TIER:-quick} 2>&1)
  rc=$?
  echo "== $c exit=$rc"
  echo "$out" | grep -E "^VIOLATION|^  what|^  key|^INCONCL|^C[0-9]+ tier|HARNESS" | head -${LINES_MAX:-8}
done
