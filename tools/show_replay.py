#!/usr/bin/env python3
"""Human view of a replay file: args, input, and the decoded output rows."""
import base64, json, sys, os
sys.path.insert(0, os.path.dirname(os.path.dirname(os.path.abspath(__file__))))
from vlib import gen, term
rep = json.load(open(sys.argv[1]))
v = rep['violation']
print('WHAT:', v['what']); print('KEY:', v['key']); print('EXPECTED:', v.get('expected')); print('OBSERVED:', v.get('observed'))
run = v.get('run') or {}
print('ARGS:', run.get('args')); print('PARENT:', run.get('parent_argv')); print('ENV:', run.get('env'), 'MODE:', run.get('mode'), run.get('pty_size'), 'rc', run.get('rc'))
print('STDERR:', run.get('stderr_tail'))
if run.get('stdin_b64'):
    print('--- stdin'); print(base64.b64decode(run['stdin_b64']).decode('utf-8', 'replace'))
if run.get('stdout_head_b64') and len(sys.argv) > 2:
    print('--- stdout rows')
    for row in term.decode(base64.b64decode(run['stdout_head_b64'])):
        tags = []
        for c in row.cells:
            t = (gen.TAG_BY_RGB.get(c.fg, c.fg), gen.TAG_BY_RGB.get(c.bg, c.bg))
            if not tags or tags[-1][0] != t: tags.append([t, ''])
            tags[-1][1] += c.ch
        print('   ', [(a, b) for a, b in tags], 'FILL' if row.fills else '')
