#!/bin/sh
# usage: tools/try_seeded.sh <seeded dir> <check id>...   Applies the patch to /repo, runs the checks (quick), reverts.
d=$1; shift
cd /repo || exit 2
if [ -n "$(git status --porcelain --untracked-files=no)" ]; then echo "/repo not clean"; exit 2; fi
# (patch.head.diff: the same change carried over to a later tree, where patch.diff no longer applies as it is)
if git apply --check "$d/patch.diff" 2>/dev/null; then git apply "$d/patch.diff"
elif [ -f "$d/patch.head.diff" ] && git apply --check "$d/patch.head.diff" 2>/dev/null; then git apply "$d/patch.head.diff"
else echo "patch does not apply"; exit 2; fi
trap 'git -C /repo checkout -- . ; /verif/setup.sh >/dev/null 2>&1' EXIT
cd /verif
for c in "$@"; do
  out=$(VERIF_EVIDENCE_DIR=/tmp/verif-seeded-evidence VERIF_SEED=${VERIF_SEED:-1} ./check "$c" --tier ${TIER:-quick} 2>&1)
  rc=$?
  echo "== $c exit=$rc"
  echo "$out" | grep -E "^VIOLATION|^  what|^  key|^KNOWN|^INCONCL|^C[0-9]+ tier|HARNESS" | head -${LINES_MAX:-8}
done
