// Miri harness for the only `unsafe` function of delta: utils::round_char_boundary::floor_char_boundary.
// The source file is included from the repository under test (path given at build time).
#[path = "/repo/src/utils/round_char_boundary.rs"]
#[allow(dead_code)]
mod round_char_boundary;

use round_char_boundary::floor_char_boundary;

fn main() {
    // code points of 1, 2, 3 and 4 bytes
    let alphabet = ['a', 'é', '日', '😀'];
    let mut n_strings = 0u64;
    let mut n_calls = 0u64;
    let mut strings: Vec<String> = vec![String::new()];
    for len in 1..=4 {
        let mut next = Vec::new();
        for s in strings.iter().filter(|s| s.chars().count() == len - 1) {
            for c in alphabet.iter() {
                let mut t = s.clone();
                t.push(*c);
                next.push(t);
            }
        }
        strings.extend(next);
    }
    for s in &strings {
        n_strings += 1;
        for idx in 0..=s.len() + 2 {
            let r = floor_char_boundary(s, idx);
            n_calls += 1;
            // reference: largest char boundary <= min(idx, len)
            let mut e = idx.min(s.len());
            while !s.is_char_boundary(e) {
                e -= 1;
            }
            if r != e {
                println!("MISMATCH s={:?} idx={} got={} expected={}", s, idx, r, e);
                std::process::exit(1);
            }
            let _ = &s[..r];
        }
    }
    println!("miri_rcb ok strings={} calls={}", n_strings, n_calls);
}
