#!/bin/sh
# Builds everything the checks need from files on disk only (offline).
set -e
cd "$(dirname "$0")"
export CARGO_NET_OFFLINE=true
mkdir -p target evidence
python3 -c "import sys; sys.path.insert(0, '.'); from vlib import build; build.ensure('hooks', quiet=False)"
if [ -f stubs/syncdelay.c ]; then
  clang -O2 -shared -fPIC -o stubs/syncdelay.so stubs/syncdelay.c -ldl
fi
if [ -f stubs/threadfail.c ]; then
  clang -O2 -shared -fPIC -o stubs/threadfail.so stubs/threadfail.c -ldl
fi
if [ -f stubs/writefault.c ]; then
  clang -O2 -shared -fPIC -o stubs/writefault.so stubs/writefault.c -ldl
fi
python3 -m compileall -q vlib >/dev/null
echo setup ok
