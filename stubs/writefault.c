/* LD_PRELOAD shim: in processes named "delta", the N-th write(2) on an fd other than 2 (and all later ones)
 * fails with EPIPE, as if the reader had gone away.  WRITEFAULT_N=0 only counts.  WRITEFAULT_SHORT=N makes the N-th write a short write.  The number of write calls
 * seen is stored in WRITEFAULT_LOG at exit. */
#define _GNU_SOURCE
#include <dlfcn.h>
#include <errno.h>
#include <stdio.h>
#include <stdlib.h>
#include <string.h>
#include <unistd.h>
#include <fcntl.h>
#include <sys/uio.h>

extern char *program_invocation_short_name;
static long counter = 0;
static long fail_at = -1;
static long short_at = -1;     /* WRITEFAULT_SHORT=N: the N-th write transfers only part of its bytes (a short write, as after a signal) */
static int active = -1;
static ssize_t (*real_write)(int, const void *, size_t) = NULL;
static ssize_t (*real_writev)(int, const struct iovec *, int) = NULL;

static void init(void) {
    if (active >= 0) return;
    real_write = dlsym(RTLD_NEXT, "write");
    real_writev = dlsym(RTLD_NEXT, "writev");
    const char *n = getenv("WRITEFAULT_N");
    active = (n != NULL && strcmp(program_invocation_short_name, "delta") == 0) ? 1 : 0;
    if (n) fail_at = atol(n);
    { const char *s_ = getenv("WRITEFAULT_SHORT"); if (s_) short_at = atol(s_); }
}

static void dump(void) {
    const char *p = getenv("WRITEFAULT_LOG");
    if (active == 1 && p) {
        int fd = open(p, O_WRONLY | O_CREAT | O_TRUNC, 0644);
        if (fd >= 0) {
            char buf[64];
            int k = snprintf(buf, sizeof buf, "%ld\n", counter);
            if (real_write) real_write(fd, buf, k);
            close(fd);
        }
    }
}

__attribute__((constructor)) static void ctor(void) { init(); atexit(dump); }

static int should_fail(int fd) {
    if (active != 1 || fd == 2) return 0;
    /* do not count writes to the verification trace file */
    counter++;
    dump();
    return fail_at > 0 && counter >= fail_at;
}

ssize_t write(int fd, const void *buf, size_t n) {
    init();
    if (should_fail(fd)) { errno = EPIPE; return -1; }
    if (active == 1 && fd != 2 && short_at > 0 && counter == short_at && n > 1)
        return real_write(fd, buf, n / 2);      /* the caller has to write the rest itself */
    return real_write(fd, buf, n);
}

ssize_t writev(int fd, const struct iovec *iov, int cnt) {
    init();
    if (should_fail(fd)) { errno = EPIPE; return -1; }
    if (active == 1 && fd != 2 && short_at > 0 && counter == short_at && cnt > 0 && iov[0].iov_len > 1)
        return real_write(fd, iov[0].iov_base, iov[0].iov_len / 2);
    return real_writev(fd, iov, cnt);
}
