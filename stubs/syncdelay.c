/* LD_PRELOAD shim: injected delays at the wake-all futex calls (Condvar::notify_all in Rust's std, which reaches
 * futex(2) through libc's syscall()) of one named thread of processes named "delta".  Nothing in delta is changed.
 *   SYNCDELAY_THREAD     first 15 characters of the thread name (default find_calling_pr)
 *   SYNCDELAY_BEFORE_MS  sleep before the wake-all
 *   SYNCDELAY_AFTER_MS   sleep after it
 *   SYNCDELAY_LOG        a line "wake-all delayed" is appended per delayed call
 * A delay widens the windows "before the notification" and "between the notification and whatever the thread does
 * next"; code that publishes its result before notifying, under the lock, is indifferent to both. */
#define _GNU_SOURCE
#include <dlfcn.h>
#include <limits.h>
#include <linux/futex.h>
#include <stdarg.h>
#include <stdio.h>
#include <stdlib.h>
#include <string.h>
#include <sys/prctl.h>
#include <sys/syscall.h>
#include <time.h>
#include <unistd.h>

extern char *program_invocation_short_name;

static void nap(long ms)
{
    struct timespec ts = { ms / 1000, (ms % 1000) * 1000000L };
    if (ms <= 0) return;
    while (nanosleep(&ts, &ts) != 0) { }
}

long syscall(long number, ...)
{
    static long (*real)(long, ...);
    long a[6];
    va_list ap;
    int i;

    if (!real)
        real = (long (*)(long, ...)) dlsym(RTLD_NEXT, "syscall");
    va_start(ap, number);
    for (i = 0; i < 6; i++)
        a[i] = va_arg(ap, long);
    va_end(ap);

    if (number == SYS_futex
        && ((int) a[1] & FUTEX_CMD_MASK) == FUTEX_WAKE
        && (int) a[2] == INT_MAX
        && strcmp(program_invocation_short_name, "delta") == 0) {
        char name[17] = { 0 };
        const char *want = getenv("SYNCDELAY_THREAD");
        if (!want) want = "find_calling_pr";
        prctl(PR_GET_NAME, name, 0, 0, 0);
        if (strncmp(name, want, 15) == 0) {
            long r;
            const char *b = getenv("SYNCDELAY_BEFORE_MS");
            const char *af = getenv("SYNCDELAY_AFTER_MS");
            const char *log = getenv("SYNCDELAY_LOG");
            nap(b ? atol(b) : 0);
            r = real(number, a[0], a[1], a[2], a[3], a[4], a[5]);
            nap(af ? atol(af) : 0);
            if (log) {
                FILE *f = fopen(log, "a");
                if (f) { fputs("wake-all delayed\n", f); fclose(f); }
            }
            return r;
        }
    }
    return real(number, a[0], a[1], a[2], a[3], a[4], a[5]);
}
