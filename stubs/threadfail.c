/* LD_PRELOAD shim: the N-th pthread_create of a process named "delta" fails with EAGAIN (what the kernel answers when a
 * task / pid limit is hit for a moment).  Nothing in delta is changed.
 *   THREADFAIL_NTH   which call fails (default 1: the first thread delta starts is the one that looks for the calling process)
 *   THREADFAIL_LOG   a line "pthread_create refused" is appended per refused call
 * Whatever delta does about the failure, a query for the calling process must not wait for ever for an answer that no
 * thread is going to publish. */
#define _GNU_SOURCE
#include <dlfcn.h>
#include <errno.h>
#include <pthread.h>
#include <stdio.h>
#include <stdlib.h>
#include <string.h>

extern char *program_invocation_short_name;

int pthread_create(pthread_t *t, const pthread_attr_t *a, void *(*fn)(void *), void *arg)
{
    static int (*real)(pthread_t *, const pthread_attr_t *, void *(*)(void *), void *);
    static int calls;
    if (!real)
        real = (int (*)(pthread_t *, const pthread_attr_t *, void *(*)(void *), void *)) dlsym(RTLD_NEXT, "pthread_create");
    if (strcmp(program_invocation_short_name, "delta") == 0) {
        const char *nth = getenv("THREADFAIL_NTH");
        int n = nth ? atoi(nth) : 1;
        if (__sync_add_and_fetch(&calls, 1) == n) {
            const char *log = getenv("THREADFAIL_LOG");
            if (log) {
                FILE *f = fopen(log, "a");
                if (f) { fputs("pthread_create refused\n", f); fclose(f); }
            }
            return EAGAIN;
        }
    }
    return real(t, a, fn, arg);
}
