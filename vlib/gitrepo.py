"""Scratch git repositories: authentic git output (diff, show, log, blame, grep) from random edits.
Real git is used by the generators only, never by delta-under-test."""
import os
import shutil
import subprocess

from . import gen, runner

GIT_ENV = {'GIT_AUTHOR_NAME': 'A U Thor', 'GIT_AUTHOR_EMAIL': 'a@example.com', 'GIT_COMMITTER_NAME': 'C O Mitter',
           'GIT_COMMITTER_EMAIL': 'c@example.com', 'GIT_AUTHOR_DATE': '2024-01-02T03:04:05+0100',
           'GIT_COMMITTER_DATE': '2024-01-02T03:04:05+0100', 'GIT_CONFIG_NOSYSTEM': '1', 'LC_ALL': 'C.UTF-8',
           'PATH': '/usr/bin:/bin', 'GIT_PAGER': 'cat', 'PAGER': 'cat'}


class Repo(object):
    def __init__(self, rng, name='repo'):
        self.rng = rng
        self.dir = os.path.join(runner.workdir(), 'tmp', name)
        if os.path.exists(self.dir):
            shutil.rmtree(self.dir)
        os.makedirs(self.dir)
        self.env = dict(GIT_ENV)
        self.env['HOME'] = os.path.join(runner.workdir(), 'home')
        self.git('init', '-q', '-b', 'main')
        self.git('config', 'core.quotepath', 'false')
        self.files = {}
        self.ncommits = 0

    def git(self, *args, **kw):
        env = dict(self.env)
        env.update(kw.get('env') or {})
        p = subprocess.run(['git'] + list(args), cwd=self.dir, env=env, stdout=subprocess.PIPE, stderr=subprocess.PIPE)
        if kw.get('check', True) and p.returncode not in kw.get('ok', (0,)):
            raise RuntimeError('git %s failed: %s' % (' '.join(args), p.stderr.decode('utf-8', 'replace')[:300]))
        return p.stdout

    def write(self, path, lines, newline_at_end=True):
        full = os.path.join(self.dir, path)
        os.makedirs(os.path.dirname(full), exist_ok=True)
        data = '\n'.join(lines)
        if lines and newline_at_end:
            data += '\n'
        with open(full, 'w', encoding='utf-8') as f:
            f.write(data)
        self.files[path] = list(lines)

    def commit(self, msg='change'):
        self.ncommits += 1
        d = '2024-01-%02dT03:04:05+0100' % min(28, self.ncommits + 1)
        self.git('add', '-A')
        self.git('commit', '-q', '--allow-empty', '-m', msg, env={'GIT_AUTHOR_DATE': d, 'GIT_COMMITTER_DATE': d,
                                                                   'GIT_AUTHOR_NAME': self.rng.choice(['A U Thor', 'Bea Ta', '山田 太郎'])})

    def seed_files(self, n=None, unicode_ok=True, tabs_ok=True):
        rng = self.rng
        n = n or rng.randint(1, 4)
        names = rng.sample(['a.rs', 'src/main.rs', 'lib/util.c', 'doc/read me.md', 'x.py', 'Makefile', 'dir/ünï.txt',
                            'b.js', 'deep/er/path/file.go', 's.sh'], n)
        for nm in names:
            k = rng.randint(3, 25)
            self.write(nm, [safe_line(rng, unicode_ok, tabs_ok) for _ in range(k)])
        self.commit('initial')

    def random_edits(self, allow_special=True):
        rng = self.rng
        paths = sorted(self.files)
        for p in paths:
            r = rng.random()
            lines = list(self.files[p])
            if r < 0.6 or not allow_special:
                for _ in range(rng.randint(1, 4)):
                    op = rng.random()
                    k = rng.randrange(len(lines) + 1)
                    if op < 0.4 and lines:
                        k = min(k, len(lines) - 1)
                        lines[k] = gen.mutate_text(rng, lines[k])
                    elif op < 0.7:
                        lines[k:k] = [safe_line(rng) for _ in range(rng.randint(1, 3))]
                    elif lines:
                        k = min(k, len(lines) - 1)
                        del lines[k:k + rng.randint(1, 3)]
                self.write(p, lines, newline_at_end=rng.random() < 0.9)
            elif r < 0.7:
                os.unlink(os.path.join(self.dir, p))
                del self.files[p]
            elif r < 0.8:
                newp = 'moved/' + os.path.basename(p)
                os.makedirs(os.path.join(self.dir, 'moved'), exist_ok=True)
                os.rename(os.path.join(self.dir, p), os.path.join(self.dir, newp))
                self.files[newp] = self.files.pop(p)
                if rng.random() < 0.5 and self.files[newp]:
                    ls = self.files[newp]
                    ls[0] = gen.mutate_text(rng, ls[0])
                    self.write(newp, ls)
            elif r < 0.88:
                os.chmod(os.path.join(self.dir, p), 0o755)
        if allow_special and rng.random() < 0.3:
            self.write('new_%d.txt' % rng.randint(0, 99), [safe_line(rng) for _ in range(rng.randint(0, 5))])
        if allow_special and rng.random() < 0.12:
            with open(os.path.join(self.dir, 'blob.bin'), 'wb') as f:
                f.write(bytes(rng.randrange(256) for _ in range(64)) + b'\0\0')

    def remove(self):
        shutil.rmtree(self.dir, ignore_errors=True)


def safe_line(rng, unicode_ok=True, tabs_ok=True):
    return gen.rand_text(rng, 60, unicode_ok=unicode_ok, tabs_ok=tabs_ok)
