"""Parsing of side-by-side (and unified -n) rows into gutters and panels, by reserved colour tags."""
from . import gen, rows, term

TAG = gen.TAG_BY_RGB
NUM_FG = {'ln_minus', 'ln_plus', 'ln_zero'}
LN_FG = rows.LN_FG


class Panel(object):
    __slots__ = ('cells', 'start_col', 'width', 'fields', 'kind', 'kinds', 'code_cells', 'has_wrap', 'wrap_symbol',
                 'truncated', 'after_wrap_cells', 'gutter_cells', 'untagged_text', 'right_prefix', 'emph_mask')

    def text(self):
        return ''.join(c.ch for c in self.code_cells)


def split_columns(row, col):
    """Split cells at display column col.  Returns (left_cells, right_cells, boundary_ok)."""
    left, right = [], []
    pos = 0
    ok = True
    for c in row.cells:
        if pos < col or (c.w == 0 and pos == col and not right and left and left[-1].ch[:1] != ' '
                         and TAG.get(left[-1].bg) == TAG.get(c.bg) and TAG.get(left[-1].bg) != 'hint_bg'):
            # (a zero-width character right at the boundary completes the last character of the left panel)
            left.append(c)
            if pos + c.w > col:
                ok = False
        else:
            if not right and left and left[-1].ch[:1] == ' ' and len(left[-1].ch) > 1:
                # zero-width characters that open the right panel were joined to the padding blank before them
                last = left[-1]
                left[-1] = term.Cell(' ', last.w, last.fg, last.bg, last.attrs, last.link)
                right.append(term.Cell(last.ch[1:], 0, last.fg, last.bg, last.attrs, last.link))
            right.append(c)
        pos += c.w
    return left, right, ok


def number_fields(cells):
    """Maximal runs of number-styled cells: [(tag, text)]; stops at the first code cell."""
    out = []
    cur = None
    for c in cells:
        if rows.family_of(TAG.get(c.bg)) is not None:
            break
        t = TAG.get(c.fg)
        if t in NUM_FG:
            if cur is not None and cur[0] == t and cur[2]:
                cur[1] += c.ch
            else:
                cur = [t, c.ch, True]
                out.append(cur)
        else:
            if cur is not None:
                cur[2] = False
    return [(t, s) for t, s, _ in out]


def parse_panel(cells, start_col, syms=('↵', '↴', '…')):
    p = Panel()
    p.cells = cells
    p.start_col = start_col
    p.width = sum(c.w for c in cells)
    p.fields = number_fields(cells)
    p.gutter_cells = []
    p.code_cells = []
    p.after_wrap_cells = []
    p.has_wrap = False
    p.wrap_symbol = None
    p.truncated = False
    p.right_prefix = False
    kinds = set()
    seen_code = False
    seen_wrap = False
    untagged = []
    for c in cells:
        bt = TAG.get(c.bg)
        ft = TAG.get(c.fg)
        fam = rows.family_of(bt)
        if bt == 'hint_bg' or (ft == 'hint_fg'):
            if c.ch == syms[2] and not seen_wrap and not any(x.ch.strip() for x in p.code_cells):
                # right-aligned continuation row: padding, then the right-prefix symbol, then the text
                p.right_prefix = True
                p.code_cells = []
                seen_code = True
            else:
                seen_wrap = True
                p.has_wrap = True
                p.wrap_symbol = c.ch
            continue
        if fam is not None:
            if seen_wrap:
                p.after_wrap_cells.append(c)
            else:
                seen_code = True
                kinds.add(fam)
                p.code_cells.append(c)
            continue
        if not seen_code:
            p.gutter_cells.append(c)
        else:
            if c.ch == '→' and 'reverse' in c.attrs:
                p.truncated = True
            else:
                untagged.append(c)
    p.kinds = kinds
    p.kind = list(kinds)[0] if len(kinds) == 1 else (None if not kinds else 'mixed')
    p.untagged_text = ''.join(c.ch for c in untagged)
    return p


def parse_sbs_row(row, width, syms=('↵', '↴', '…')):
    """Returns (left_panel, right_panel, boundary_ok) for a side-by-side code row."""
    half = width // 2
    lc, rc, ok = split_columns(row, half)
    return parse_panel(lc, 0, syms), parse_panel(rc, half, syms), ok


def field_number(text):
    t = text.strip()
    if t == '':
        return None
    if t.isdigit():
        return int(t)
    return t   # not a number: reported by the oracle
