"""Row classification by reserved colour tags (see gen.TAGS)."""
from . import gen, term

MINUS_BG = {'minus', 'minus_emph', 'minus_nonemph', 'minus_empty'}
PLUS_BG = {'plus', 'plus_emph', 'plus_nonemph', 'plus_empty', 'ws_err'}
ZERO_BG = {'zero'}
CODE_BG = MINUS_BG | PLUS_BG | ZERO_BG
HH_FG = {'hh', 'hh_file', 'hh_ln'}
DEC_FG = {'file_dec', 'hh_dec', 'commit_dec', 'grep_hdr_dec', 'mc_ours_dec', 'mc_theirs_dec'}
LN_FG = {'ln_left', 'ln_right', 'ln_minus', 'ln_plus', 'ln_zero'}
BOX_CHARS = set('─│┌┐└┘├┤┬┴┼━┃┏┓┗┛═║╔╗╚╝▔▁ ')

TAG = gen.TAG_BY_RGB


def family_of(bgtag):
    if bgtag in MINUS_BG:
        return '-'
    if bgtag in PLUS_BG:
        return '+'
    if bgtag in ZERO_BG:
        return ' '
    return None


class RowInfo(object):
    __slots__ = ('kind', 'text', 'code', 'code_kinds', 'row', 'gutter', 'index', 'cells_code')

    def __repr__(self):
        return 'Row(%s %r)' % (self.kind, self.code if self.kind == 'code' else self.text)


def classify(row, index=0):
    """kind: blank, dec, file, hunk, code, text.  For code rows: .code_kinds = set of families
    ('-', '+', ' ') present, .code = concatenated text of code cells, .gutter = cells before the
    first code cell."""
    info = RowInfo()
    info.row = row
    info.index = index
    info.text = row.text()
    info.code = None
    info.code_kinds = set()
    info.gutter = []
    info.cells_code = []
    fams = set()
    fgtags = set()
    first_code = None
    for i, c in enumerate(row.cells):
        bt = TAG.get(c.bg)
        f = family_of(bt)
        if f is not None:
            fams.add(f)
            if first_code is None:
                first_code = i
        ft = TAG.get(c.fg)
        if ft is not None:
            fgtags.add(ft)
    if not fams:
        for (_col, _mode, st) in row.fills:
            f = family_of(TAG.get(st[1]))
            if f is not None:
                fams.add(f)
    if fams:
        info.kind = 'code'
        info.code_kinds = fams
        info.cells_code = [c for c in row.cells if family_of(TAG.get(c.bg)) is not None]
        info.code = ''.join(c.ch for c in info.cells_code)
        info.gutter = row.cells[:first_code] if first_code is not None else list(row.cells)
        return info
    if fgtags & LN_FG:
        # a line-number gutter without any code cell: an empty hunk line that was not filled
        info.kind = 'code'
        info.code = ''
        info.gutter = list(row.cells)
        fam = None
        if 'ln_zero' in fgtags:
            fam = ' '
        else:
            for c in row.cells:
                t = TAG.get(c.fg)
                if t == 'ln_minus' and any(ch.isdigit() for ch in c.ch):
                    fam = '-'
                elif t == 'ln_plus' and any(ch.isdigit() for ch in c.ch):
                    fam = fam or '+'
        info.code_kinds = {fam} if fam else set()
        return info
    if 'file' in fgtags:
        info.kind = 'file'
        return info
    if fgtags & HH_FG:
        info.kind = 'hunk'
        return info
    stripped = info.text.strip()
    if not stripped:
        info.kind = 'blank'
        return info
    # a decoration row consists of rule/box characters and decoration-coloured cells only
    if all((TAG.get(c.fg) in DEC_FG) or all(ch in BOX_CHARS for ch in c.ch) for c in row.cells):
        info.kind = 'dec'
        return info
    info.kind = 'text'
    return info


def classify_all(out_bytes, merge=True):
    rows = term.decode(out_bytes, merge=merge)
    return [classify(r, i) for i, r in enumerate(rows)]


def expand_tabs(text, tabs):
    if tabs and tabs > 0:
        return text.replace('\t', ' ' * tabs)
    return text
