"""C11 - output is streamed: bounded lag behind the input, never revised."""
import fcntl
import os
import shlex
import struct
import subprocess
import termios
import time

from .. import corpus, engine, gen, rows, runner
from ..engine import held, inconclusive, violated
from .. import crash as crashmod

ID = 'C11'
LEVEL = 'exploration'
RULE = ('unified and combined diffs without conflict regions, runs of changed lines of length 0..3x buffer, --line-buffer-size in '
        '{0,1,2,32}, unified and side-by-side view; the input is fed line by line and after each line the check waits for logical '
        'quiescence (stdin pipe drained AND main thread asleep in read(0)), then takes what is on stdout; every prefix is also '
        'rendered by an independent complete run, and inside a hunk everything rendered for the input before the open run of '
        'changed lines must already be out; an evaluation is one (diff, prefix) point; distinct = (diff shape, options, k); '
        'non-trivial = the prefix ends inside a hunk')
ASSUMPTIONS = ['quiescence is decided from /proc/<pid>/stat, /proc/<pid>/syscall and FIONREAD, never from elapsed time',
               'hook 1 (state trace) is compiled in; it records buffer occupancy after every handled line']
CHUNK = 1


def plan(ctx):
    items = [('paced', engine.stable_hash((ctx.seed, 'c11', i))) for i in range(ctx.n(130, 3000))]
    items += [('memory', engine.stable_hash((ctx.seed, 'c11m', i))) for i in range(ctx.n(3, 12))]
    items += [('subcommand', engine.stable_hash((ctx.seed, 'c11s', i))) for i in range(ctx.n(12, 300))]
    return items


def fionread(fd):
    buf = fcntl.ioctl(fd, termios.FIONREAD, b'\0\0\0\0')
    return struct.unpack('i', buf)[0]


def child_pid(shell_pid, deadline):
    while time.time() < deadline:
        try:
            with open('/proc/%d/task/%d/children' % (shell_pid, shell_pid)) as f:
                kids = f.read().split()
            if kids:
                return int(kids[0])
        except OSError:
            return None
        time.sleep(0.0005)
    return None


def blocked_in_read_stdin(pid):
    try:
        with open('/proc/%d/task/%d/stat' % (pid, pid)) as f:
            st = f.read().rsplit(')', 1)[1].split()
        if st[0] != 'S':
            return False
        with open('/proc/%d/task/%d/syscall' % (pid, pid)) as f:
            sc = f.read().split()
        return len(sc) >= 2 and sc[0] == '0' and int(sc[1], 16) == 0
    except (OSError, ValueError, IndexError):
        return False


class Paced(object):
    """delta fed line by line; after each line: wait for quiescence, collect stdout."""

    def __init__(self, args, trace=False, pager=False, extra_env=None):
        w = runner.workdir()
        env = runner.base_env(extra_env)
        self.pager = pager
        self.pager_pid = None
        if pager:
            # a pager that copies what it receives straight to (delta's inherited) stdout: what it has received is observable
            env['DELTA_PAGER'] = '/bin/cat'
            args = [('always' if a == 'never' and i > 0 and args[i - 1] == '--paging' else a) for i, a in enumerate(args)]
        self.trace_path = None
        if trace:
            self.trace_path = os.path.join(w, 'tmp', 'c11trace.%d.%d' % (os.getpid(), int(time.time() * 1e6)))
            env['DELTA_VERIF_TRACE'] = self.trace_path
        exe = runner.binary()
        script = ' '.join(shlex.quote(a) for a in [exe] + list(args)) + '; rc=$?; exit $rc'
        argv = [runner.NEUTRAL_PARENT[0], '-c', script] + runner.NEUTRAL_PARENT[1:]
        self.proc = subprocess.Popen(argv, executable='/bin/sh', stdin=subprocess.PIPE, stdout=subprocess.PIPE, stderr=subprocess.PIPE,
                                     env=env, cwd=os.path.join(w, 'cwd'), bufsize=0, start_new_session=True)
        self.pid = child_pid(self.proc.pid, time.time() + 5)
        fl = fcntl.fcntl(self.proc.stdout.fileno(), fcntl.F_GETFL)
        fcntl.fcntl(self.proc.stdout.fileno(), fcntl.F_SETFL, fl | os.O_NONBLOCK)
        self.written = b''

    def drain(self):
        while True:
            try:
                d = os.read(self.proc.stdout.fileno(), 1 << 16)
            except BlockingIOError:
                return
            if not d:
                return
            self.written += d

    def quiesce(self, timeout=10.0):
        """Returns True when the input is consumed and the main thread sleeps in read(0)."""
        deadline = time.time() + timeout
        fd = self.proc.stdin.fileno()
        while time.time() < deadline:
            if self.proc.poll() is not None:
                return False
            if fionread(fd) == 0 and self.pid and blocked_in_read_stdin(self.pid) and self.pager_idle():
                # the pipe only becomes empty in the reader's context; confirm the state once more after draining
                self.drain()
                if self.pager:
                    time.sleep(0.001)
                if fionread(fd) == 0 and blocked_in_read_stdin(self.pid) and self.pager_idle():
                    self.drain()
                    return True
            self.drain()
            time.sleep(0.0003)
        return False

    def pager_idle(self):
        """In pager mode: the pager process exists and sleeps in read(0), i.e. it has passed on all it was given."""
        if not self.pager:
            return True
        if self.pager_pid is None:
            try:
                with open('/proc/%d/task/%d/children' % (self.pid, self.pid)) as f:
                    kids = f.read().split()
                self.pager_pid = int(kids[0]) if kids else None
            except (OSError, ValueError):
                self.pager_pid = None
        return self.pager_pid is not None and blocked_in_read_stdin(self.pager_pid)

    def feed(self, line):
        os.write(self.proc.stdin.fileno(), line + b'\n')

    def finish(self):
        self.proc.stdin.close()
        deadline = time.time() + 20
        while self.proc.poll() is None and time.time() < deadline:
            self.drain()
            time.sleep(0.001)
        if self.proc.poll() is None:
            os.killpg(self.proc.pid, 9)
        fl = fcntl.fcntl(self.proc.stdout.fileno(), fcntl.F_GETFL)
        fcntl.fcntl(self.proc.stdout.fileno(), fcntl.F_SETFL, fl & ~os.O_NONBLOCK)
        self.written += self.proc.stdout.read()
        err = self.proc.stderr.read()
        self.proc.stdout.close()
        self.proc.stderr.close()
        rc = self.proc.wait()
        trace = []
        if self.trace_path:
            try:
                trace = open(self.trace_path).read().splitlines()
                os.unlink(self.trace_path)
            except OSError:
                pass
        return rc, err, trace


def make_case(rng):
    buf = rng.choice([0, 1, 2, 2, 3, 5, 32])
    view = 'sbs' if rng.random() < 0.3 else 'unified'
    if rng.random() < 0.2:
        lines, _m, _p = corpus.gen_combined(rng, conflict=False, nparents=2)
        kind = 'combined'
        roles = ['header'] * 4 + ['hunkheader'] + ['hunk'] * (len(lines) - 5)
        tagged = False
        opts = {'--paging': 'never', '--line-buffer-size': buf}
    else:
        secs = []
        for _ in range(rng.choice([1, 1, 2])):
            s = gen.gen_section(rng, rng.choice(['modified', 'modified', 'added', 'deleted', 'renamed_changed', 'mode_only', 'binary']),
                                simple_paths=True, maxlines=4, maxlen=30)
            for h in s.hunks:
                if s.kind in ('added', 'deleted'):
                    continue
                # runs of changed lines of length 0 .. 3 x buffer
                new = []
                cap = 40 if buf == 32 and rng.random() < 0.5 else min(3 * max(buf, 1), 8)     # (runs longer than the buffer, also for 32)
                for j in range(rng.randint(1, 3) if cap <= 8 else 1):
                    if j > 0 or rng.random() < 0.7:
                        new.append((' ', gen.rand_text(rng, 30, allow_empty=False, tabs_ok=False)))     # (else: the hunk opens with a changed line)
                    nm = rng.randint(0, cap)
                    np_ = rng.randint(0, cap)
                    new += [('-', gen.rand_text(rng, 30, allow_empty=False, tabs_ok=False)) for _ in range(nm)]
                    new += [('+', gen.rand_text(rng, 30, allow_empty=False, tabs_ok=False)) for _ in range(np_)]
                h.lines = new
            secs.append(s)
        d = gen.Diff(secs)
        kind = 'unified-diff'
        if all(s_.kind == 'modified' for s_ in secs) and rng.random() < 0.25:
            # diff -u output, its empty unchanged lines without their blank: unchanged lines like the others - what came
            # before them is out when they have been read
            for s_ in secs:
                for h in s_.hunks:
                    new = []
                    for k_, t_ in h.lines:
                        new.append((k_, t_))
                        if k_ in '-+' and rng.random() < 0.3:
                            new.append((' ', ''))
                    h.lines = new + [(' ', 'last line of the hunk')]
            d = gen.Diff(secs, fmt='plain')
            kind = 'plain-diff-stripped-blanks'
        rl = d.role_lines()
        lines = [('' if (kind == 'plain-diff-stripped-blanks' and r == 'hunk' and l == ' ') else l) for r, l in rl]
        roles = [r for r, _ in rl]
        tagged = True
        opts = gen.tagged_styles()
        opts.update({'--paging': 'never', '--line-buffer-size': buf, '--syntax-theme': 'none'})
        if rng.random() < 0.4:
            opts['--line-numbers'] = True
    if view == 'sbs':
        opts['--side-by-side'] = True
        opts['--width'] = 160
    return lines, roles, opts, buf, view, kind, tagged


def run_item(item):
    kind0, seed = item
    rng = engine.item_rng(seed)
    if kind0 == 'memory':
        return run_memory(rng)
    if kind0 == 'subcommand':
        return run_subcommand_paced(rng)
    lines, roles, opts, buf, view, kind, tagged = make_case(rng)
    args = gen.to_args(opts)
    blines = [l.encode() for l in lines]
    # environment variables that delta consults while rendering (the pairing heuristic of the experimental variable decides
    # which lines are compared; none of them may change *when* lines are written)
    r4 = engine.item_rng(engine.stable_hash((seed, 'c11-env')))
    extra_env = None
    if r4.random() < 0.2:
        extra_env = r4.choice([{'DELTA_EXPERIMENTAL_MAX_LINE_DISTANCE_FOR_NAIVELY_PAIRED_LINES': r4.choice(['0.5', '1.0', '0.1'])},
                               {'DELTA_EXPERIMENTAL_MAX_LINE_DISTANCE_FOR_NAIVELY_PAIRED_LINES': '0.6', 'COLORTERM': 'truecolor'},
                               {'BAT_THEME': 'GitHub'}, {'COLORTERM': 'truecolor'}])
    whole = runner.run_delta(args, b'\n'.join(blines) + b'\n', env=extra_env)
    c = crashmod.classify(whole)
    if c is not None or whole.rc != 0:
        return [engine.crash_outcome(whole, ID) or inconclusive('reference run failed')]
    pager = rng.random() < 0.25
    p = Paced(args, trace=True, pager=pager, extra_env=extra_env)
    if not p.pid:
        p.finish()
        return [inconclusive('could not find the delta process')]
    outs = []
    sets = {'views': [view], 'kinds': [kind], 'buffer_sizes': [str(buf)], 'output_to': ['pager' if pager else 'stdout'], 'environment': sorted(extra_env or ['-'])}
    snapshots = []
    ok_q = p.quiesce()
    for k, l in enumerate(blines):
        p.feed(l)
        if not p.quiesce():
            p.finish()
            return [inconclusive('quiescence not reached after line %d' % (k + 1), sets=sets)]
        snapshots.append(p.written)
    rc, err, trace = p.finish()
    if rc != 0 or p.written != whole.out:
        return [violated('c11:paced-output-differs', 'output of the line-by-line fed run differs from the output of the run fed at once (rc %d)' % rc,
                         len(whole.out), len(p.written), run=whole, sets=sets)]
    # hook-1 secondary monitor: buffer occupancy after every handled line
    tl = [t for t in trace if t.startswith('line ')]
    if len(tl) != len(blines):
        return [inconclusive('hook trace has %d line records for %d input lines' % (len(tl), len(blines)), sets=sets)]
    for i, t in enumerate(tl):
        f = dict(x.split('=') for x in t.split()[2:])
        if int(f['outbuf']) != 0:
            outs.append(violated('c11:outbuf-not-flushed', 'rendered text is still held in the output buffer after input line %d was handled (%s)' % (i + 1, t),
                                 0, f['outbuf'], run=whole, sets=sets))
            return outs
        if int(f['minus']) > buf + 1 or int(f['plus']) > buf + 1:
            outs.append(violated('c11:line-buffer-exceeded', 'more than line-buffer-size + 1 lines are held back after input line %d (%s, buffer %d)' % (i + 1, t, buf),
                                 buf + 1, t, run=whole, sets=sets))
            return outs
    open_run = 0
    in_hunk = False
    hunk_lines = 0
    for k in range(len(blines)):
        role = roles[k]
        written = snapshots[k]
        counters = {'prefix_points': 1, 'held_back_lines': 0}
        if role == 'hunkheader':
            in_hunk = True
            open_run = 0
        elif role == 'header':
            in_hunk = False
            open_run = 0
        if role == 'hunk':
            hunk_lines += 1
            first = lines[k][:1] if kind != 'combined' else ('+' if '+' in lines[k][:2] else ('-' if '-' in lines[k][:2] else ' '))
            if first and first in '+-':
                open_run += 1
            else:
                open_run = 0
        # (a) never revised: prefix of the final output and of the output for this prefix alone
        if not whole.out.startswith(written):
            outs.append(violated('c11:not-prefix-of-final', 'what was written after %d input lines is not a prefix of the final output' % (k + 1),
                                 None, written[-200:].decode('utf-8', 'replace'), run=whole, sets=sets, counters=counters))
            return outs
        alone = runner.run_delta(args, b'\n'.join(blines[:k + 1]) + b"\n", env=extra_env)
        if crashmod.classify(alone) is not None or alone.rc != 0:
            outs.append(engine.crash_outcome(alone, ID) or inconclusive('prefix run failed'))
            continue
        if not alone.out.startswith(written):
            outs.append(violated('c11:not-prefix-of-prefix-run', 'what was written after %d input lines is not a prefix of what delta writes for those lines alone' % (k + 1),
                                 None, written[-200:].decode('utf-8', 'replace'), run=alone, sets=sets, counters=counters))
            return outs
        # (a2) only the open run is held back: everything delta writes for the input before the open run (file header,
        # hunk header, earlier lines) is on stdout by now
        if role == 'hunkheader' and k > 0 and roles[k - 1] == 'hunk':
            # (a3) the header of the next hunk closes the run the previous hunk ended with: what delta writes for the input
            # before this header line is out (the header itself is written with the first line of its hunk)
            base = runner.run_delta(args, b'\n'.join(blines[:k]) + b'\n', env=extra_env)
            if crashmod.classify(base) is None and base.rc == 0 and len(written) < len(base.out) and base.out.startswith(written):
                outs.append(violated('c11:held-back-past-hunk-end', 'after the header line of the next hunk (input line %d) only %d of the %d bytes that delta writes for '
                                     'the input before it are out: the last changed lines of the previous hunk are still held back'
                                     % (k + 1, len(written), len(base.out)), len(base.out), len(written), run=whole, sets=sets, counters=counters))
                return outs
            counters['hunk_end_points'] = 1
        if role == 'hunk':
            base = alone if open_run == 0 else runner.run_delta(args, b'\n'.join(blines[:k + 1 - open_run]) + b'\n', env=extra_env)
            if crashmod.classify(base) is None and base.rc == 0 and len(written) < len(base.out) and base.out.startswith(written):
                outs.append(violated('c11:held-back-before-open-run', 'after %d input lines (open run of changed lines: %d) only %d of the %d bytes that delta writes for '
                                     'the input before the open run are on stdout: headers or earlier lines are held back'
                                     % (k + 1, open_run, len(written), len(base.out)), len(base.out), len(written), run=base, sets=sets, counters=counters))
                return outs
            counters['before_open_run_checked'] = 1
        # (b) bounded lag inside a hunk (unified view, tagged rows: one row per line)
        nontrivial = role == 'hunk'
        if role == 'hunk' and tagged and view == 'unified':
            shown = sum(1 for i in rows.classify_all(written) if i.kind == 'code')
            pending = hunk_lines - shown
            counters['held_back_lines'] = max(pending, 0)
            if pending > open_run:
                outs.append(violated('c11:lag-exceeds-open-run', 'after %d input lines %d hunk lines are not yet written although the open run of changed lines is only %d long'
                                     % (k + 1, pending, open_run), open_run, pending, run=alone, sets=sets, counters=counters))
                return outs
            # the limit applies to the buffer of removed lines and to the buffer of added lines separately
            # (that each of them stays <= size + 1 is checked exactly through the hook trace above)
            if pending > 2 * (buf + 1):
                outs.append(violated('c11:lag-exceeds-buffer', 'after %d input lines %d hunk lines are held back, line-buffer-size is %d' % (k + 1, pending, buf),
                                     2 * (buf + 1), pending, run=alone, sets=sets, counters=counters))
                return outs
        elif role == 'hunk':
            # other views: at least everything before the open run must be out: compare with the run on the prefix without the open run
            if open_run == 0 and alone.out != written:
                outs.append(violated('c11:unchanged-line-held-back', 'the input ends with an unchanged line but not everything has been written (%d of %d bytes)'
                                     % (len(written), len(alone.out)), len(alone.out), len(written), run=alone, sets=sets, counters=counters))
                return outs
        o = held(sig=(tuple(roles), view, buf, k, kind), nontrivial=nontrivial, counters=counters, sets=sets,
                 sample={'view': view, 'line_buffer_size': buf, 'k': k + 1, 'input_line': lines[k][:60], 'bytes_written': len(written)} if k == len(blines) // 2 else None)
        o['executions'] = 1
        outs.append(o)
    return outs


def _descendants(pid):
    out = []
    try:
        with open('/proc/%d/task/%d/children' % (pid, pid)) as f:
            kids = [int(x) for x in f.read().split()]
    except (OSError, ValueError):
        return out
    for k in kids:
        out.append(k)
        out += _descendants(k)
    return out


def _comm(pid):
    try:
        with open('/proc/%d/comm' % pid) as f:
            return f.read().strip()
    except OSError:
        return ''


def _blocked_in_read(pid, waiting_calls=('0',)):
    """The main thread sleeps in read() (or, with waiting_calls given, in another call that waits for input or for a child:
    poll 7, ppoll 271, epoll_wait 232, wait4 61)."""
    try:
        with open('/proc/%d/task/%d/stat' % (pid, pid)) as f:
            st = f.read().rsplit(')', 1)[1].split()
        if st[0] != 'S':
            return False
        with open('/proc/%d/task/%d/syscall' % (pid, pid)) as f:
            sc = f.read().split()
        return len(sc) >= 1 and sc[0] in waiting_calls
    except (OSError, ValueError, IndexError):
        return False


def run_subcommand_paced(rng):
    """delta starts the producer itself (delta git show): the rendering keeps up with the producer there too.  A stand-in git
    copies a FIFO that the check writes line by line; quiescence = FIFO drained, the copying process and delta's main thread
    both asleep in read()."""
    s = gen.gen_section(rng, 'modified', simple_paths=True, maxlines=4, maxlen=30)
    for h in s.hunks:
        new = []
        for j in range(rng.randint(2, 4)):
            new.append((' ', gen.rand_text(rng, 30, allow_empty=False, tabs_ok=False)))
            new += [('-', gen.rand_text(rng, 30, allow_empty=False, tabs_ok=False)) for _ in range(rng.randint(0, 2))]
            new += [('+', gen.rand_text(rng, 30, allow_empty=False, tabs_ok=False)) for _ in range(rng.randint(0, 2))]
        h.lines = new
    d = gen.Diff([s])
    rl = d.role_lines()
    opts = gen.tagged_styles()
    opts.update({'--paging': 'never', '--syntax-theme': 'none'})
    if rng.random() < 0.4:
        opts['--line-numbers'] = True
    w = runner.workdir()
    fifo = os.path.join(w, 'tmp', 'c11fifo.%d.%d' % (os.getpid(), int(time.time() * 1e6)))
    os.mkfifo(fifo)
    env = runner.base_env({'VERIF_STUB_OUT': fifo}, path_prefix=os.path.join(runner.STUBS, 'bin'))
    args = gen.to_args(opts) + ['git', 'show']
    script = ' '.join(shlex.quote(a) for a in [runner.binary()] + args) + '; rc=$?; exit $rc'
    argv = [runner.NEUTRAL_PARENT[0], '-c', script] + runner.NEUTRAL_PARENT[1:]
    proc = subprocess.Popen(argv, executable='/bin/sh', stdin=subprocess.DEVNULL, stdout=subprocess.PIPE, stderr=subprocess.PIPE, env=env,
                            cwd=os.path.join(w, 'cwd'), bufsize=0, start_new_session=True)
    sets = {'views': ['unified'], 'kinds': ['subcommand:git-show'], 'buffer_sizes': ['32'], 'output_to': ['stdout']}
    outs = []
    wfd = None
    try:
        # (opening the FIFO for writing returns when the stand-in's cat has opened it for reading)
        t0 = time.time()
        while wfd is None and time.time() - t0 < 10:
            try:
                wfd = os.open(fifo, os.O_WRONLY | os.O_NONBLOCK)
            except OSError:
                time.sleep(0.005)
        if wfd is None:
            return [inconclusive('the stand-in producer did not open the FIFO', sets=sets)]
        fl = fcntl.fcntl(proc.stdout.fileno(), fcntl.F_GETFL)
        fcntl.fcntl(proc.stdout.fileno(), fcntl.F_SETFL, fl | os.O_NONBLOCK)
        written = b''

        def drain():
            nonlocal written
            while True:
                try:
                    dd = os.read(proc.stdout.fileno(), 1 << 16)
                except BlockingIOError:
                    return
                if not dd:
                    return
                written += dd

        # (however delta waits for its producer: in read(), in poll(), for the child ...)
        WAITING = ('0', '7', '271', '232', '61')

        def quiesce():
            deadline = time.time() + 10
            while time.time() < deadline:
                if proc.poll() is not None:
                    return False
                ds = _descendants(proc.pid)
                delta_pid = next((p_ for p_ in ds if _comm(p_) == 'delta'), None)
                cat_pid = next((p_ for p_ in ds if _comm(p_) == 'cat'), None)
                if delta_pid and cat_pid and fionread(wfd) == 0 and _blocked_in_read(cat_pid) and _blocked_in_read(delta_pid, WAITING):
                    drain()
                    time.sleep(0.002)
                    if fionread(wfd) == 0 and _blocked_in_read(cat_pid) and _blocked_in_read(delta_pid, WAITING):
                        drain()
                        return True
                drain()
                time.sleep(0.0005)
            return False
        hunk_lines = 0
        open_run = 0
        snaps = []
        for role, l in rl:
            os.write(wfd, l.encode() + b'\n')
            if not quiesce():
                return [inconclusive('quiescence not reached in subcommand mode', sets=sets)]
            if role == 'hunkheader':
                open_run = 0
            if role == 'hunk':
                hunk_lines += 1
                open_run = open_run + 1 if l[:1] in '+-' else 0
                shown = sum(1 for i_ in rows.classify_all(written) if i_.kind == 'code')
                pending = hunk_lines - shown
                if pending > open_run:
                    return [violated('c11:subcommand:lag-exceeds-open-run', 'delta git show: after %d producer lines %d hunk lines are not yet written although the open run of '
                                     'changed lines is only %d long (the producer is still running)' % (len(snaps) + 1, pending, open_run), open_run, pending, sets=sets,
                                     extra={'written_bytes': len(written)})]
            snaps.append(written)
            o = held(sig=('subcommand', tuple(r for r, _ in rl), len(snaps)), nontrivial=role == 'hunk', counters={'prefix_points': 1, 'subcommand_points': 1}, sets=sets)
            o['executions'] = 1
            outs.append(o)
        os.close(wfd)
        wfd = None
        t0 = time.time()
        while proc.poll() is None and time.time() - t0 < 20:
            drain()
            time.sleep(0.002)
        drain()
        for sn in snaps:
            if not written.startswith(sn):
                return [violated('c11:subcommand:not-prefix-of-final', 'what delta git show had written at a pause is not a prefix of its final output', None, None, sets=sets)]
    finally:
        if wfd is not None:
            os.close(wfd)
        if proc.poll() is None:
            try:
                os.killpg(proc.pid, 9)
            except OSError:
                pass
        proc.stdout.close()
        proc.stderr.close()
        proc.wait()
        try:
            os.unlink(fifo)
        except OSError:
            pass
    return outs


def run_memory(rng):
    """Memory does not grow with the input size."""
    shape = [' ctx line %d' % 1, '-removed line here', '+added line there', ' more context']
    buf = rng.choice([0, 2, 32])
    view = rng.choice([[], ['--side-by-side', '--width', '120'], ['--line-numbers']])
    args = ['--paging', 'never', '--line-buffer-size', str(buf)] + view

    def big(n):
        body = []
        for i in range(n // 4):
            body += shape
        return ('diff --git a/f.rs b/f.rs\n--- a/f.rs\n+++ b/f.rs\n@@ -1,%d +1,%d @@\n' % (n, n) + '\n'.join(body) + '\n').encode()
    small = runner.run_delta(args, big(20000), measure_rss=True)
    large = runner.run_delta(args, big(400000 if rng.random() < 0.7 else 1000000), timeout=300, measure_rss=True)
    if crashmod.classify(small) or crashmod.classify(large) or small.rc or large.rc:
        return [inconclusive('memory runs failed')]
    if not small.hwm_kb or not large.hwm_kb:
        return [inconclusive('resident-set high-water mark could not be sampled')]
    # (the high-water mark of the delta process itself, sampled from /proc: ru_maxrss also counts what the harness had
    # resident when it forked)
    delta_kb = large.hwm_kb - small.hwm_kb
    sets = {'views': ['memory'], 'kinds': ['memory'], 'buffer_sizes': [str(buf)]}
    nl = large.stdin.count(b'\n')
    if delta_kb > 4096:
        return [violated('c11:memory-grows-with-input', 'resident memory grows with the input size: high-water mark %d KB for 2x10^4 lines, %d KB for %d lines'
                         % (small.hwm_kb, large.hwm_kb, nl), '< 4 MB growth', delta_kb, run=small, sets=sets)]
    o = held(sig=('memory', tuple(view), buf, nl), nontrivial=True, counters={'memory_pairs': 1}, sets=sets,
             sample={'hwm_kb_2e4_lines': small.hwm_kb, 'hwm_kb_large': large.hwm_kb, 'large_lines': nl})
    o['executions'] = 2
    return [o]


def floors(ctx, agg):
    p = []
    if agg.counters.get('prefix_points', 0) < 1200:
        p.append('fewer than 1200 prefix points observed')
    if agg.counters.get('held_back_lines', 0) < 200:
        p.append('too few points at which lines were legitimately held back (the workload does not exercise buffering)')
    return p
