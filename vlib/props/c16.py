"""C16 - grep output keeps every hit's path, line number and code."""
import os
import re

from .. import corpus, engine, gen, rows, runner, term
from ..engine import held, inconclusive, violated, crash_outcome

ID = 'C16'
LEVEL = 'exploration'
RULE = ('grep result models (files -> hits with line numbers, match/context kinds, submatch byte ranges, group separators) '
        'serialised as git-grep coloured output (git\'s exact escape layout), plain text with/without -n (restricted to the '
        'unambiguous class the property states), and rg --json records; delivered through `delta git grep` / `delta rg` with stub '
        'executables and through stdin with an impersonated grep parent; both --grep-output-type layouts, tabs, separators, '
        'navigate; every hit must appear once, in order, under its file with identical path, number and code; for rg --json and '
        'coloured input the highlighted spans must equal the submatches; distinct = (format, delivery, layout, paths, hit kinds); '
        'non-trivial = >= 2 hits')
ASSUMPTIONS = ['path / number / code cells are recognised by the reserved colours given to the grep-* styles',
               'plain streams without line numbers never contain code that begins with digits and a separator: such a line is '
               'byte-identical to a numbered line, so no reader could meet the property on it']
CHUNK = 6
T = gen.TAGS
BIN = os.path.join(runner.STUBS, 'bin')

PATHS = ['src/main.rs', 'a.py', 'lib/util-x.c', 'src/co-7-fig.rs', 'x/y.z/w.js', 'doc/read me.md', 'etc/META-INF/foo.properties',
         'v1.2/a_b.go', 'Makefile', 'dir-1/sub_2/file.name.txt', 'ünï/cödé.rs', 'LICENSE', 'build.gradle.kts',
         # version-like directory names: 'name.ext' + separator + number + separator inside the path itself
         'pkg/foo-1.0-2-src/main.c', 'my dir/lib.v2-beta.rs', 'rel-2.1=3=x/mod.py']
# coloured output and rg --json mark the path: anything may be in it
HOSTILE_PATHS = ['x-12-y.c', 'a:b.rs', 'k=v.conf', './rel/p.rs', '../up.rs', '/abs/path.py', 'we ird:12:name.txt', 'dir/file:10:fn main.rs', 'Make-7-file', 'a.b-c=d:e']
# paths whose text starts like a line delta renders as something else (recorded finding for coloured input; rg --json records
# start with '{' and are read correctly)
MARKER_PATHS = ['diff tool/x.rs', 'commit 1/notes.txt', 'Submodule docs/a.md', '--- a/old.c']
LOOKALIKE = re.compile(r'[\w-]+\.\w+[:=-]\d+[:=-]')
PATH_WITH_EXT = re.compile(r'^[^:| ][^:]*[^ :]\.[^. :=-]{1,10}$')    # what delta's numbered-line pattern takes for a path
EXT_THEN_SEP = re.compile(r'[^ ]\.[^. :=-]{1,10}[:=-]')


def plan(ctx):
    n = ctx.n(7000, 100000)
    return [('case', engine.stable_hash((ctx.seed, 'c16', i))) for i in range(n)]


def gen_model(rng, fmt, headers=False):
    files = []
    used = set()
    for _ in range(rng.randint(1, 3)):
        p = rng.choice(PATHS + (HOSTILE_PATHS if not fmt.startswith('plain') else []))
        if fmt == 'json' and rng.random() < 0.08:
            # names that JSON has to escape (every path on Windows does): the record is read all the same
            p = rng.choice(['win\\dir\\a.rs', 'src\\main.rs', 'odd "quoted" name.rs', 'back\\slash "and" quote.py', 'C:\\Users\\me\\x.c'])
        if not fmt.startswith('plain') and rng.random() < 0.008:
            p = rng.choice(MARKER_PATHS)
        if p in used:
            continue
        if fmt.startswith('plain') and ('.' not in os.path.basename(p)) and any(c in p for c in ':-='):
            continue
        if fmt == 'plain' and LOOKALIKE.search(p):
            continue     # without line numbers 'pkg/foo-1.0-2-src/main.c:x' is also line 2 of pkg/foo-1.0: no reader can tell
        used.add(p)
        hits = []
        ln = rng.choice([1, 3, 9, 10, 57, 99, 100, 998, 12345])
        prev_kind = None
        for _ in range(rng.randint(1, 7)):
            ln += rng.choice([1, 1, 1, 2, 5, 40])
            while True:
                code = gen.rand_text(rng, 60, allow_empty=False, unicode_ok=True, tabs_ok=False)
                if not fmt.startswith('plain') and rng.random() < 0.06:
                    # code that itself looks like a grep line (the tool's markup says it is code)
                    code = rng.choice(['src/x.rs:12: looks like a hit', 'a.py-3-ctx', 'file.c=7=hdr', '-- not a separator', 'Binary file x matches',
                                       'lib/util-x.c:10:nested:11:again', '{"type":"match"}']) + ' ' + code[:10]
                if rng.random() < 0.04:
                    # "x.word" directly followed by a separator: make rules, attribute updates
                    code = rng.choice(['foo.o: foo.c', 'self.count-=1', 'CFLAGS.debug=-g', 'if x.y: pass', 'a.b-c']) + ' ' + code[:20]
                if rng.random() < 0.3:
                    code = rng.choice(['\t', '\t\t', '    ']) + code     # leading indentation
                if not code.strip() or code.strip() == '--':
                    continue
                if fmt.startswith('plain') and LOOKALIKE.search(code):
                    continue
                if fmt == 'plain' and (LOOKALIKE.search(os.path.basename(p) + ':' + code) or LOOKALIKE.search(os.path.basename(p) + '-' + code)):
                    continue    # the path itself followed by "<sep>digits<sep>" at the start of the code
                if fmt == 'plain' and re.match(r'\d+[:=-]', code):
                    continue    # "path:42: x" without line numbers is the very same text as line 42 with them: no reader can tell
                break
            kind = 'match' if rng.random() < 0.7 else 'context'
            if headers and rng.random() < 0.25:
                kind = 'header'
            subs = []
            if kind == 'match':
                idxs = [len(code[:k].encode('utf-8')) for k in range(len(code) + 1)]
                # tabs occur in the leading indentation only; a submatch may start inside it ("^\s*return")
                first = len(code) - len(code.lstrip('\t'))
                lead_sub = first > 0 and rng.random() < 0.4
                nsub = rng.choice([1, 1, 2])
                pos = first
                for _s in range(nsub):
                    if pos >= len(code) - 1:
                        break
                    a = rng.randint(pos, len(code) - 1)
                    z = rng.randint(a + 1, min(len(code), a + 6))
                    if lead_sub and _s == 0 and first < len(code):
                        a = rng.randint(0, first)
                        z = rng.randint(first + 1, min(len(code), first + 6))
                    import unicodedata
                    # submatches start and end on grapheme boundaries (not at a combining mark)
                    while a < len(code) and unicodedata.combining(code[a]):
                        a += 1
                    z = max(z, a + 1)
                    while z < len(code) and unicodedata.combining(code[z]):
                        z += 1
                    if a >= len(code) or code[a:z].strip() == '':
                        break
                    subs.append((idxs[a], idxs[z]))
                    pos = z + 1
            hits.append((ln, kind, code, subs))
        files.append((p, hits))
    return files


def serialise(model, fmt, rng):
    E = '\x1b'
    out = []
    if fmt == 'json':
        if rng.random() < 0.75:
            return corpus.rg_json_text(model)
        return corpus.rg_json_text_multiline(model, rng)
    numbers = fmt.endswith('-n')
    for p, hits in model:
        prev = None
        any_context = any(k == 'context' for _, k, _, _ in hits)
        for ln, kind, code, subs in hits:
            sep = ':' if kind == 'match' else ('=' if kind == 'header' else '-')
            if prev is not None and any_context and ln > prev + 1:
                out.append(E + '[36m--' + E + '[m' if fmt.startswith('color') else '--')
            prev = ln
            if fmt.startswith('color'):
                b = code.encode('utf-8')
                cc = b''
                last = 0
                for s, e in subs:
                    cc += b[last:s] + (E + '[1;31m').encode() + b[s:e] + (E + '[m').encode()
                    last = e
                cc += b[last:]
                s_ = E + '[35m' + p + E + '[m' + E + '[36m' + sep + E + '[m'
                if numbers:
                    s_ += E + '[32m%d' % ln + E + '[m' + E + '[36m' + sep + E + '[m'
                out.append(s_ + cc.decode('utf-8'))
            else:
                out.append('%s%s%d%s%s' % (p, sep, ln, sep, code) if numbers else '%s%s%s' % (p, sep, code))
    return '\n'.join(out) + '\n'


def run_item(item):
    _, seed = item
    rng = engine.item_rng(seed)
    fmt = rng.choice(['json', 'json', 'color-n', 'color-n', 'color', 'plain-n', 'plain-n', 'plain'])
    func_ctx = None
    if fmt in ('color-n', 'plain-n') and rng.random() < 0.3:
        func_ctx = rng.choice(['-p', '-W', '-W+p'])      # git grep --show-function / --function-context / both (then the whole function is listed)
    elif fmt == 'color' and rng.random() < 0.2:
        func_ctx = '-p'                          # the same without -n: there is no number to show in the header either
    model = gen_model(rng, fmt, headers=func_ctx is not None)
    if not model:
        return inconclusive('empty model')
    text = serialise(model, fmt, rng)
    tabs = rng.choice([8, 8, 4, 2, 1])
    opts = {'--paging': 'never', '--true-color': 'always', '--grep-file-style': T['grep_file'], '--grep-line-number-style': T['grep_ln'],
            '--grep-match-line-style': 'normal ' + T['grep_match_line'], '--grep-match-word-style': 'normal ' + T['grep_match_word'],
            '--grep-context-line-style': 'normal ' + T['grep_context'], '--syntax-theme': 'none', '--tabs': tabs}
    layout = rng.choice([None, 'ripgrep', 'classic'])
    hh_file = False
    if func_ctx:
        layout = rng.choice([None, 'classic'])
        opts['--grep-header-file-style'] = T['grep_hdr_file']
        opts['--grep-header-decoration-style'] = T['grep_hdr_dec'] + ' ' + rng.choice(['box', 'ul', ''])
        hh_num = True          # the default hunk-header-style is "line-number syntax"
        if rng.random() < 0.6:
            hhs = rng.choice(['file line-number syntax', 'file syntax', 'syntax', 'line-number'])
            opts['--hunk-header-style'] = hhs
            hh_file = 'file' in hhs
            hh_num = 'line-number' in hhs
        if not fmt.endswith('-n'):
            hh_num = False
    elif rng.random() < 0.15:
        # a hunk header style from the user's configuration: of no concern to grep output
        opts['--hunk-header-style'] = rng.choice(['raw', 'omit', 'file', 'line-number syntax bold', 'syntax'])
    if layout:
        opts['--grep-output-type'] = layout
    eff_layout = layout or ('ripgrep' if fmt == 'json' else 'classic')
    sepsym = ':'
    if rng.random() < 0.3:
        sepsym = rng.choice(['keep', '|', ':'])
        opts['--grep-separator-symbol'] = sepsym
    navigate = rng.random() < 0.2
    if navigate:
        opts['--navigate'] = True
    if rng.random() < 0.3:
        opts['--width'] = rng.choice([60, 120])
    if rng.random() < 0.2:
        opts['--hyperlinks'] = True
    if fmt == 'json' and rng.random() < 0.2:
        # rg --json records are far longer than the code they carry: the limit on the length of input lines does not apply
        opts['--max-line-length'] = rng.choice([20, 60, 100, 300])
    args = gen.to_args(opts)
    # delivery
    if func_ctx:
        delivery = 'stdin-parent-git-grep' + func_ctx
    elif fmt == 'json':
        delivery = rng.choice(['stdin', 'delta-rg'])
    else:
        delivery = rng.choice(['stdin-parent-git-grep', 'delta-git-grep', 'stdin-parent-rg'] if fmt.startswith('color') or True else [])
    env = {}
    if delivery == 'delta-rg':
        env['VERIF_STUB_OUT'] = runner.write_file('c16_stub', text)
        res = runner.run_delta(args + ['rg', 'pattern'], b'', env=env, path_prefix=BIN, stdin_is_none=True)
    elif delivery == 'delta-git-grep':
        env['VERIF_STUB_OUT'] = runner.write_file('c16_stub', text)
        res = runner.run_delta(args + ['git', 'grep', '-n', 'pattern'], b'', env=env, path_prefix=BIN, stdin_is_none=True)
    elif delivery == 'stdin-parent-git-grep':
        res = runner.run_delta(args, text.encode(), parent_argv=['git', 'grep', '-n', 'pattern'])
    elif func_ctx:
        fopts = [func_ctx] if func_ctx != '-W+p' else rng.choice([['-p', '-W'], ['-W', '-p'], ['-pW'], ['--show-function', '--function-context']])
        res = runner.run_delta(args, text.encode(), parent_argv=['git', 'grep'] + (['-n'] if fmt.endswith('-n') else []) + fopts + ['pattern'])
    elif delivery == 'stdin-parent-rg':
        res = runner.run_delta(args, text.encode(), parent_argv=['rg', '-n', 'pattern'])
    else:
        res = runner.run_delta(args, text.encode())
    c = crash_outcome(res, ID)
    if c is not None:
        if c.get('violation'):
            c['violation']['extra'] = {'input': text, 'delivery': delivery}
        return c
    if res.rc != 0:
        return inconclusive('exit %d: %s' % (res.rc, res.err[:120]))
    sets = {'formats': [fmt], 'delivery': [delivery], 'layouts': [eff_layout]}
    counters = {'hits_compared': 0, 'submatch_spans_compared': 0, 'files': len(model)}
    rws = term.decode(res.out)
    TAG = gen.TAG_BY_RGB
    CODE_BG = {'grep_match_line', 'grep_match_word', 'grep_context'}

    cur = {'hit': None, 'path': ''}

    def bad(key, what, exp, obs):
        shape = ''
        h = cur['hit']
        if fmt.startswith('color') and any(p_ in MARKER_PATHS for p_, _h in model):
            # coloured grep output with a path that starts like a diff / commit / submodule line: the handlers of those
            # constructs are asked first and take the line (known finding); everything after it may be affected
            shape = ':path-starts-like-a-diff-or-commit-line'
            key = 'misread'
        elif h is not None and fmt == 'plain' and h[1] == 'context' and h[2][:1] in ':=-':
            # the one input shape for which the plain format without numbers is misread (known finding)
            shape = ':context-line-whose-code-starts-with-a-separator'
            key = 'misparsed'
        elif (h is not None and fmt.startswith('plain') and h[1] in ('context', 'header') and EXT_THEN_SEP.search('-' + h[2])
              and (fmt == 'plain' or not PATH_WITH_EXT.match(cur['path']))):
            # second misread shape (known finding): code holding "x.word" directly followed by a separator, e.g. the
            # Makefile context line "Makefile-11-foo.o: foo.c" (numbered lines: extension-less paths only)
            shape = ':context-line-whose-code-has-name.ext-then-separator'
            key = 'misparsed'
        return violated('c16:%s:%s%s' % (key, fmt, shape), what, exp, obs, run=res, counters=counters, sets=sets,
                        extra={'input': text, 'delivery': delivery})
    # parse rows
    parsed = []
    for r in rws:
        path = ''.join(c_.ch for c_ in r.cells if TAG.get(c_.fg) in ('grep_file', 'grep_hdr_file'))
        num = ''.join(c_.ch for c_ in r.cells if TAG.get(c_.fg) == 'grep_ln')
        code_cells = [c_ for c_ in r.cells if TAG.get(c_.bg) in CODE_BG]
        if not path and not num and not code_cells:
            parsed.append(('other', r.text() if not all((TAG.get(c_.fg) == 'grep_hdr_dec') or c_.ch in '─│┌┐└┘├┤┬┴ ' for c_ in r.cells) else ''))
            continue
        # separator text between number/path and the code
        first_code = next((i for i, c_ in enumerate(r.cells) if TAG.get(c_.bg) in CODE_BG), len(r.cells))
        last_tagged = -1
        for i, c_ in enumerate(r.cells[:first_code]):
            if TAG.get(c_.fg) in ('grep_file', 'grep_ln'):
                last_tagged = i
        between = ''.join(c_.ch for c_ in r.cells[last_tagged + 1:first_code])
        lead = ''.join(c_.ch for c_ in r.cells[:first_code] if TAG.get(c_.fg) not in ('grep_file', 'grep_ln'))
        parsed.append(('hit', path, num, code_cells, between, r))
    pos = 0
    have_numbers = fmt == 'json' or fmt.endswith('-n')
    for p, hits in model:
        cur['hit'] = (hits[0][0], hits[0][1], hits[0][2])
        cur['path'] = p
        if eff_layout == 'ripgrep':
            # group header row
            while pos < len(parsed) and parsed[pos][0] == 'other':
                pos += 1
            if pos >= len(parsed) or parsed[pos][1] != p or parsed[pos][3]:
                return bad('group-header', 'file group is not introduced by a row showing its path', p, parsed[pos][1:3] if pos < len(parsed) else 'end of output')
            pos += 1
        for ln, kind, code, subs in hits:
            cur['hit'] = (ln, kind, code)
            bare_header = kind == 'header' and func_ctx == '-p' and not hh_num and not hh_file
            found_bare = False
            while pos < len(parsed) and parsed[pos][0] == 'other':
                if parsed[pos][1].strip() not in ('', '--'):
                    if bare_header and code.replace('\t', ' ' * tabs).strip() in parsed[pos][1]:
                        # header style shows neither path nor number: the row holds just the code
                        found_bare = True
                        pos += 1
                        break
                    return bad('unexpected-row', 'unexpected row between hits', None, parsed[pos][1])
                pos += 1
            if found_bare:
                counters['headers_compared'] = counters.get('headers_compared', 0) + 1
                continue
            if pos >= len(parsed):
                return bad('hit-missing', 'a hit is missing from the output', (p, ln, code), 'end of output')
            _, path, num, cells, between, row = parsed[pos]
            pos += 1
            if kind == 'header' and func_ctx == '-p':
                # function header: rendered like a hunk header; path only when the hunk-header style asks for it
                rest = ''.join(c_.ch for c_ in row.cells if TAG.get(c_.fg) not in ('grep_file', 'grep_hdr_file', 'grep_ln', 'grep_hdr_dec'))
                if hh_num and num.strip() != str(ln):
                    return bad('header-number', 'function-context header does not show its line number', ln, num)
                if not hh_num and num.strip() not in ('', str(ln)):
                    return bad('header-number', 'function-context header shows another line number', ln, num)
                if code.replace('\t', ' ' * tabs).strip() not in rest:
                    return bad('header-code', 'function-context header does not show its code', code, rest)
                if hh_file and path != p:
                    return bad('header-path', 'function-context header does not show the path although the style asks for it', p, path)
                if not hh_file and path:
                    return bad('header-path', 'function-context header shows a path although the style does not ask for it', '', path)
                counters['headers_compared'] = counters.get('headers_compared', 0) + 1
                continue
            if kind == 'header':
                kind = 'context'      # with --function-context the header is an ordinary line of the function
            if eff_layout == 'classic' and path != p:
                return bad('path', 'path shown for a hit differs', p, path)
            if eff_layout == 'ripgrep' and path:
                return bad('path', 'a hit row in the grouped layout carries a path', '', path)
            if have_numbers:
                if num.strip() != str(ln):
                    return bad('line-number', 'line number shown for a hit differs', ln, num)
            elif num.strip():
                return bad('line-number', 'a line number is shown for a hit that has none', '', num)
            shown = ''.join(c_.ch for c_ in cells)
            exp = code.replace('\t', ' ' * tabs)
            if shown.rstrip(' ') != exp.rstrip(' ') or not shown.startswith(exp):
                return bad('code', 'code shown for a hit differs', exp, shown)
            want_bg = {'match': {'grep_match_line', 'grep_match_word'}, 'context': {'grep_context'}}[kind]
            if any(TAG.get(c_.bg) not in want_bg for c_ in cells[:len(exp)]):
                return bad('kind', 'a %s line is painted with the style of the other kind' % kind, sorted(want_bg), sorted({TAG.get(c_.bg) for c_ in cells}))
            # no slack between separator and code other than the documented padding (classic layout)
            if eff_layout == 'classic' and have_numbers:
                pad = '  ' if ln < 10 else (' ' if ln < 100 else '')
                seps = [':', '-', '|', '=']

                if not (len(between) >= 1 and between[0] in seps and between[1:] == pad):
                    return bad('separator-padding', 'text between the line number and the code is not separator + documented padding', 'sep + %r' % pad, between)
            counters['hits_compared'] += 1
            # highlighted spans
            if kind == 'match' and (fmt == 'json' or fmt.startswith('color')):
                b = code.encode('utf-8')
                exp_mask = []
                # per character: is it inside a submatch
                bpos = 0
                for ch in code:
                    inside = any(s <= bpos < e for s, e in subs)
                    n = tabs if ch == '\t' else 1
                    exp_mask += [inside] * n
                    bpos += len(ch.encode('utf-8'))
                got_mask = [TAG.get(c_.bg) == 'grep_match_word' for c_ in cells[:len(exp_mask)]]
                # cells are graphemes; code characters may be combining: compare on the characters of the shown text
                got_chars = []
                for c_ in cells:
                    got_chars += [TAG.get(c_.bg) == 'grep_match_word'] * len(c_.ch)
                if got_chars[:len(exp_mask)] != exp_mask:
                    return bad('submatch-span', 'highlighted span differs from the reported submatch', exp_mask, got_chars[:len(exp_mask)])
                counters['submatch_spans_compared'] += len(subs)
    while pos < len(parsed):
        if parsed[pos][0] == 'hit' and parsed[pos][3]:
            return bad('extra-hit', 'extra hit row after the last expected hit', None, parsed[pos][5].text())
        pos += 1
    nhits = sum(len(h) for _, h in model)
    return held(sig=(fmt, delivery, eff_layout, tuple(p for p, _ in model), tuple(k for _, h in model for _, k, _, _ in h)),
                nontrivial=nhits >= 2, counters=counters, sets=sets,
                sample={'format': fmt, 'delivery': delivery, 'layout': eff_layout, 'input_head': text.split('\n')[:3]})


def floors(ctx, agg):
    p = []
    if agg.counters.get('hits_compared', 0) < 5000:
        p.append('fewer than 5000 hits compared')
    if agg.counters.get('submatch_spans_compared', 0) < 1000:
        p.append('fewer than 1000 submatch spans compared')
    if len(agg.sets.get('formats', ())) < 5 or len(agg.sets.get('delivery', ())) < 5:
        p.append('not all formats / deliveries exercised')
    return p
