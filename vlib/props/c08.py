"""C08 - git's default colouring is ignored; moved-line and raw colours are preserved."""
from .. import corpus, engine, gen, gitrepo, rows, runner, term, workload
from ..engine import held, inconclusive, violated, crash_outcome

ID = 'C08'
LEVEL = 'exploration'
RULE = ('(a) pairs (plain, coloured) of the same diff - real `git diff --color=never|always` on randomly edited scratch '
        'repositories, a synthetic colouriser reproducing every layout git emits, and combined (merge) diffs coloured by the '
        'signs of their prefix columns as git does - under unified/side-by-side option '
        'sets: stdout must be byte-identical; (b) changed lines carrying an arbitrary SGR rendition (moved-line colours, '
        '8/16/256/24-bit, attributes): output cells must carry exactly the input rendition, or the --map-styles target; '
        '(c) raw-styled elements keep their input bytes; distinct = (sub-check, colour layout / rendition, view, option '
        'classes); non-trivial = diff has a changed line')
ASSUMPTIONS = ['option sets used for (a) give no element the style "raw" (commit metadata is excluded: commit-style defaults to raw)']
CHUNK = 4
E = '\x1b'


def plan(ctx):
    items = []
    for i in range(ctx.n(500, 8000)):
        items.append(('real', engine.stable_hash((ctx.seed, 'c08r', i))))
    for i in range(ctx.n(3500, 60000)):
        items.append(('synth', engine.stable_hash((ctx.seed, 'c08s', i))))
    for i in range(ctx.n(2500, 40000)):
        items.append(('moved', engine.stable_hash((ctx.seed, 'c08m', i))))
    for i in range(ctx.n(900, 12000)):
        items.append(('raw', engine.stable_hash((ctx.seed, 'c08w', i))))
    for i in range(ctx.n(900, 12000)):
        items.append(('combined', engine.stable_hash((ctx.seed, 'c08c', i))))
    for i in range(ctx.n(150, 2000)):
        items.append(('mapkey', engine.stable_hash((ctx.seed, 'c08k', i))))
    return items


def run_mapkey(rng):
    """map-styles entries whose left side names the input colour in each of the ways git can be told to write it (named,
    palette number, 24-bit), in both colour modes: the left side is a key for what the input carries, not something to display.
    The target is a palette colour, shown the same in both modes."""
    E_ = '\x1b'
    kind = rng.choice('-+')
    how = rng.choice(['rgb', 'rgb', 'idx', 'named', 'rgb-bg'])
    if how == 'rgb':
        r, g, b = rng.randrange(256), rng.randrange(256), rng.randrange(256)
        sgr, key = '38;2;%d;%d;%d' % (r, g, b), '"#%02x%02x%02x"' % (r, g, b)
    elif how == 'rgb-bg':
        r, g, b = rng.randrange(256), rng.randrange(256), rng.randrange(256)
        sgr, key = '1;35;48;2;%d;%d;%d' % (r, g, b), 'bold purple "#%02x%02x%02x"' % (r, g, b)
    elif how == 'idx':
        n = rng.randrange(16, 256)
        sgr, key = '38;5;%d' % n, str(n)
    else:
        sgr, key = rng.choice([('1;35', 'bold purple'), ('1;36', 'bold cyan'), ('3;34', 'italic blue')])
    tfg = rng.choice([214, 45, 199, 120])
    text = 'moved_line_%d ' % rng.randrange(1000) + gen.rand_text(rng, 30, allow_empty=False, tabs_ok=False)
    other = 'plain_line ' + gen.rand_text(rng, 20, allow_empty=False, tabs_ok=False)
    lines = ['diff --git a/m.txt b/m.txt', 'index 1111111..2222222 100644', '--- a/m.txt', '+++ b/m.txt', '@@ -1,2 +1,2 @@',
             E_ + '[' + sgr + 'm' + kind + text + E_ + '[m', ' ' + other]
    sets = {'sub': ['map-styles-key'], 'map_key_kinds': [how]}
    if rng.random() < 0.35:
        # the target asks for syntax highlighting ('bold purple => syntax magenta' in the manual): the moved line is shown as
        # the same line is shown, uncoloured, under a minus/plus style of that value - also when an ordinary changed line of
        # the same kind stands next to it in its block
        sets['map_key_kinds'] = [how + '+syntax-target']
        tbg = rng.choice([53, 22, 17, 236])
        theme = rng.choice(gen.THEMES_DARK)
        text = 'let moved_%d = "text"; // %s' % (rng.randrange(1000), gen.rand_text(rng, 12, allow_empty=False, tabs_ok=False).replace('\x1b', ''))
        neighbour = 'let ordinary = 1;'      # (a complete statement: it leaves the highlighter in the state it found it in)
        order = rng.random() < 0.5
        col = '[31m' if kind == '-' else '[32m'
        moved_l, ord_l = E_ + '[' + sgr + 'm' + kind + text + E_ + '[m', E_ + col + kind + neighbour + E_ + '[m'
        head = ['diff --git a/m.rs b/m.rs', 'index 1111111..2222222 100644', '--- a/m.rs', '+++ b/m.rs', '@@ -1,3 +1,3 @@']
        colored = head + ([ord_l, moved_l] if order else [moved_l, ord_l]) + [' fn ctx() {}']
        plain = head + ([kind + neighbour, kind + text] if order else [kind + text, kind + neighbour]) + [' fn ctx() {}']
        base = ['--paging', 'never', '--no-gitconfig', '--syntax-theme', theme, '--true-color', 'always', '--dark']
        a = runner.run_delta(base + ['--map-styles', '%s => syntax %d' % (key, tbg)], ('\n'.join(colored) + '\n').encode())
        b = runner.run_delta(base + ['--minus-style' if kind == '-' else '--plus-style', 'syntax %d' % tbg], ('\n'.join(plain) + '\n').encode())
        for r_ in (a, b):
            c = crash_outcome(r_, ID)
            if c is not None:
                return c
            if r_.rc != 0:
                return inconclusive('exit %d: %s' % (r_.rc, r_.err[:120]), sets=sets)
        ra = [r_ for r_ in term.decode(a.out.decode('utf-8', 'replace')) if 'moved_' in r_.text()]
        rb = [r_ for r_ in term.decode(b.out.decode('utf-8', 'replace')) if 'moved_' in r_.text()]
        if len(ra) != 1 or len(rb) != 1:
            return violated('c08:map-key:line-missing', 'the moved line is shown %d times (reference %d)' % (len(ra), len(rb)), 1, len(ra), run=a, sets=sets)
        ca = [(c_.ch, c_.fg, c_.bg, frozenset(c_.attrs)) for c_ in ra[0].cells if c_.ch.strip()]
        cb = [(c_.ch, c_.fg, c_.bg, frozenset(c_.attrs)) for c_ in rb[0].cells if c_.ch.strip()]
        if ca != cb:
            k_ = next((i for i in range(min(len(ca), len(cb))) if ca[i] != cb[i]), min(len(ca), len(cb)))
            return violated('c08:map-key:syntax-target', "a moved line mapped by --map-styles '%s => syntax %d' is not shown as the same line under a %s-style 'syntax %d' "
                            '(an ordinary %s line stands %s it)' % (key, tbg, 'minus' if kind == '-' else 'plus', tbg, 'removed' if kind == '-' else 'added',
                                                                  'before' if order else 'after'), repr(cb[k_:k_ + 2]), repr(ca[k_:k_ + 2]), run=a, sets=sets)
        o = held(sig=('mapkey-syntax', how, kind, order), nontrivial=True, counters={'map_key_cases': 1, 'map_syntax_targets': 1}, sets=sets)
        o['executions'] = 2
        return o
    outs = []
    for tc in ('always', 'never'):
        args = ['--paging', 'never', '--no-gitconfig', '--syntax-theme', 'none', '--true-color', tc, '--map-styles', '%s => bold %d' % (key, tfg)]
        res = runner.run_delta(args, ('\n'.join(lines) + '\n').encode())
        c = crash_outcome(res, ID)
        if c is not None:
            return c
        if res.rc != 0:
            return inconclusive('exit %d: %s' % (res.rc, res.err[:120]), sets=sets)
        row = [r for r in term.decode(res.out.decode('utf-8', 'replace')) if text.rstrip() in r.text()]
        if len(row) != 1:
            return violated('c08:map-key:line-missing', 'the specially coloured line is shown %d times' % len(row), 1, len(row), run=res, sets=sets)
        cells = [c_ for c_ in row[0].cells if c_.ch.strip()]
        got = set((c_.fg, c_.bg, frozenset(c_.attrs)) for c_ in cells)
        want = {(('idx', tfg), None, frozenset({'bold'}))}
        if got != want:
            return violated('c08:map-key:%s:%s' % (how, tc), 'a line coloured %s in the input, with --map-styles %r and --true-color %s, is not shown in the style the entry assigns'
                            % (sgr, '%s => bold %d' % (key, tfg), tc), sorted(map(repr, want)), sorted(map(repr, got))[:4], run=res, sets=sets)
        outs.append(res.out)
    o = held(sig=('mapkey', how, kind), nontrivial=True, counters={'map_key_cases': 1}, sets=sets)
    o['executions'] = 2
    return o


def colorize_variant(role_lines, variant, rng):
    """Synthetic git colouring in the layouts git emits.  role_lines: [(role, line)] from the model."""
    rs = E + ('[m' if variant.get('reset', 'm') == 'm' else '[0m')
    out = []
    for role, l in role_lines:
        if role == 'header':
            out.append(E + '[1m' + l + rs if not l.startswith('Binary ') else l)
        elif role == 'note':
            out.append(l)
        elif role == 'hunkheader':
            k = l.find('@@', 2)
            head, frag = (l[:k + 2], l[k + 2:]) if k >= 0 else (l, '')
            if frag:
                out.append(E + '[36m' + head + rs + ' ' + rs + frag[1:] + rs if variant.get('frag_reset') else
                           E + '[36m' + head + rs + frag)
            else:
                out.append(E + '[36m' + head + rs)
        elif l.startswith('-') or l.startswith('+'):
            col = '[31m' if l[0] == '-' else '[32m'
            body = l[1:]
            cr = ''
            if body.endswith('\r'):
                body, cr = body[:-1], '\r'
            stripped = body.rstrip(' \t')
            ws = body[len(stripped):]
            if variant.get('marker_separate') or l[0] == '+':
                s = E + col + l[0] + rs
                if stripped or not ws:
                    s += E + col + stripped + rs if stripped else ''
            else:
                s = E + col + l[0] + stripped + rs
            if ws:
                if variant.get('ws_highlight') and l[0] == '+':
                    s += E + '[41m' + ws + rs
                else:
                    s += E + col + ws + rs
            out.append(s + cr)
        elif l.startswith(' '):
            if variant.get('context_reset'):
                out.append(' ' + rs + l[1:] + rs)
            else:
                out.append(l + rs if variant.get('context_trailing_reset') else l)
        else:
            out.append(l)
    return out


VARIANT_KEYS = ['marker_separate', 'ws_highlight', 'context_reset', 'context_trailing_reset', 'frag_reset']


def options_for_equality(rng):
    if rng.random() < 0.45:
        o, meta = gen.sbs_options(rng)
        view = 'sbs'
    else:
        o, meta = gen.unified_options(rng, allow_raw_headers=False)
        view = 'unified'
        for k in ('--diff-highlight', '--diff-so-fancy'):
            if o.pop(k, None):
                meta['classes'] = [c for c in meta['classes'] if c != k.lstrip('-')]
    if rng.random() < 0.3:
        # default styles instead of the tagged ones
        o = {k: v for k, v in o.items() if not k.endswith('-style')}
        meta['classes'] = meta['classes'] + ['default-styles']
    if rng.random() < 0.2:
        o['--hyperlinks'] = True
    return o, meta, view


def compare(plain, colored, opts, meta, view, tag, sets, counters):
    a = runner.run_delta(gen.to_args(opts), plain)
    c = crash_outcome(a, ID)
    if c is not None:
        return c
    if a.rc != 0:
        return inconclusive('exit %d: %s' % (a.rc, a.err[:120]))
    b = runner.run_delta(gen.to_args(opts), colored)
    c = crash_outcome(b, ID)
    if c is not None:
        c['executions'] = 2
        return c
    if a.out != b.out:
        pos = 0
        while pos < min(len(a.out), len(b.out)) and a.out[pos] == b.out[pos]:
            pos += 1
        ls = a.out[:pos].count(b'\n')
        al, bl = a.out.split(b'\n'), b.out.split(b'\n')
        if len(al) == len(bl):
            diff_idx = [i for i in range(len(al)) if al[i] != bl[i]]
            if all(al[i].startswith(b'\\ No newline at end of file') and bl[i].startswith(al[i]) and
                   bl[i][len(al[i]):] in (b'\x1b[m', b'\x1b[0m') for i in diff_idx):
                o = violated('c08:no-newline-note-keeps-trailing-reset',
                             "the '\\ No newline at end of file' note of a git-coloured diff is written with git's trailing "
                             'reset sequence, so the output differs from the uncoloured run by that sequence',
                             al[diff_idx[0]].decode(), bl[diff_idx[0]].decode(), run=b, counters=counters, sets=sets)
                o['executions'] = 2
                return o
        o = violated('c08:coloured-differs:%s:%s' % (tag, view),
                     'output for the git-coloured diff differs from the output for the same diff uncoloured '
                     '(first difference in output line %d)' % ls,
                     a.out.split(b'\n')[ls].decode('utf-8', 'replace')[:300],
                     b.out.split(b'\n')[ls].decode('utf-8', 'replace')[:300], run=b, counters=counters, sets=sets)
        o['executions'] = 2
        return o
    return None


def run_item(item):
    kind, seed = item
    rng = engine.item_rng(seed)
    if kind == 'real':
        return run_real(rng)
    if kind == 'synth':
        return run_synth(rng)
    if kind == 'moved':
        return run_moved(rng)
    if kind == 'combined':
        return run_combined(rng)
    if kind == 'mapkey':
        return run_mapkey(rng)
    return run_raw(rng)


def run_combined(rng):
    """Combined (merge) diffs as git colours them: a line is red/green by the signs in its prefix columns."""
    conflict = rng.random() < 0.4
    nparents = 2 if conflict else rng.choice([2, 2, 3])
    lines, model, path = corpus.gen_combined(rng, conflict=conflict, nparents=nparents)
    reset = rng.choice(['m', 'm', '0m'])
    colored = corpus.git_colorize_combined(lines, nparents, reset)
    opts, meta, view = options_for_equality(rng)
    vtag = 'combined:parents%d:%s%s' % (nparents, reset, ':conflict' if conflict else '')
    sets = {'sub': ['combined'], 'views': [view], 'colour_layouts': [vtag], 'option_classes': meta['classes']}
    counters = {'pairs': 1, 'input_lines': len(lines), 'combined_pairs': 1}
    bad = compare(('\n'.join(lines) + '\n').encode(), ('\n'.join(colored) + '\n').encode(), opts, meta, view, 'combined', sets, counters)
    if bad is not None:
        return bad
    o = held(sig=('combined', vtag, view, tuple(sorted(meta['classes'])), len(lines)), nontrivial=any(m[0] == 'line' and m[1].strip() for m in model),
             counters=counters, sets=sets, sample={'sub': 'combined', 'layout': vtag, 'coloured_head': colored[:8]})
    o['executions'] = 2
    return o


def run_real(rng):
    repo = gitrepo.Repo(rng)
    try:
        repo.seed_files()
        repo.random_edits()
        repo.git('add', '-A', '-N')
        gopts = rng.choice([[], ['-M'], ['-U0'], ['-U1'], ['-U5', '-M'], ['--ws-error-highlight=all'],
                            ['--ws-error-highlight=new,old'], ['-M', '--function-context']])
        plain = repo.git('diff', '--color=never', *gopts)
        colored = repo.git('diff', '--color=always', *gopts)
    finally:
        repo.remove()
    if not plain.strip():
        return inconclusive('empty diff')
    opts, meta, view = options_for_equality(rng)
    sets = {'sub': ['real-git'], 'views': [view], 'git_opts': [' '.join(gopts)], 'option_classes': meta['classes']}
    counters = {'pairs': 1, 'input_lines': plain.count(b'\n')}
    bad = compare(plain, colored, opts, meta, view, 'real', sets, counters)
    if bad is not None:
        return bad
    o = held(sig=('real', tuple(gopts), view, tuple(sorted(meta['classes'])), hash(plain) & 0xffff),
             nontrivial=b'\n-' in plain or b'\n+' in plain, counters=counters, sets=sets,
             sample={'sub': 'real-git', 'git_opts': gopts, 'coloured_head': colored.decode('utf-8', 'replace').split('\n')[:6],
                     'args_tail': gen.to_args(opts)[-6:]})
    o['executions'] = 2
    return o


def run_synth(rng):
    d = gen.gen_diff(rng, maxlen=rng.choice([40, 90]), simple_paths=True)
    near_limit = None
    if rng.random() < 0.35:
        # lines whose text is just below / at / above the maximum line length: the colour sequences of the
        # coloured variant must not count towards the limit
        near_limit = rng.choice([30, 60, 120, 150, 200])
        for s_ in d.sections:
            for h in s_.hunks:
                if rng.random() < 0.5:
                    # hunk headers are exempt from the limit, coloured or not
                    h.fragment = ('fn a_rather_long_function_name(argument: Type) -> Result<Value, Error> ' * 4)[:near_limit + rng.randint(-20, 60)].rstrip()
                new = []
                for kk, t in h.lines:
                    if kk in '+- ' and rng.random() < 0.5:
                        want = near_limit - rng.randint(-3, 22) - 1
                        t = (t + ' ' + 'w0rd ' * 60)[:max(1, want)].rstrip() or 'x'
                        t = t.replace('\t', ' ')
                    new.append((kk, t))
                h.lines = new
    crlf = rng.random() < 0.1
    rl = d.role_lines()
    if crlf:
        rl = [(r, l + '\r' if r == 'hunk' else l) for r, l in rl]
        if rng.random() < 0.4:
            # a lone CR inside the text as well (progress output checked in): only the CR at the end belongs to the line ending
            rl = [(r, l[:len(l) // 2] + '\r' + l[len(l) // 2:] if r == 'hunk' and len(l) > 6 and rng.random() < 0.4 else l) for r, l in rl]
        if rng.random() < 0.5:
            # some of the CRLF lines hold a byte that is not valid UTF-8 (written as a lone surrogate here)
            rl = [(r, l[:2] + '\udcff' + l[2:] if r == 'hunk' and len(l) > 3 and rng.random() < 0.4 else l) for r, l in rl]
    lines = [l for _, l in rl]
    variant = {k: rng.random() < 0.5 for k in VARIANT_KEYS}
    variant['reset'] = rng.choice(['m', '0m'])
    colored = colorize_variant(rl, variant, rng)
    opts, meta, view = options_for_equality(rng)
    if near_limit:
        opts['--max-line-length'] = near_limit
        meta['classes'] = meta['classes'] + ['near-max-line-length']
    vtag = '+'.join(sorted(k for k in VARIANT_KEYS if variant[k])) + ':' + variant['reset'] + (':crlf' if crlf else '')
    sets = {'sub': ['synthetic'], 'views': [view], 'colour_layouts': [vtag], 'option_classes': meta['classes']}
    counters = {'pairs': 1, 'input_lines': len(lines)}
    plain_b = ('\n'.join(lines) + '\n').encode('utf-8', 'surrogateescape')
    col_b = ('\n'.join(colored) + '\n').encode('utf-8', 'surrogateescape')
    bad = compare(plain_b, col_b, opts, meta, view, 'synthetic', sets, counters)
    if bad is not None:
        return bad
    o = held(sig=('synth', vtag, view, tuple(sorted(meta['classes'])), tuple(s.kind for s in d.sections)),
             nontrivial=any(k in '+-' for s in d.sections for h in s.hunks for k, _ in h.lines), counters=counters, sets=sets,
             sample={'sub': 'synthetic', 'layout': vtag, 'coloured_head': colored[:7]})
    o['executions'] = 2
    return o


RENDITIONS = [('1;31', ('idx', 1), None, {'bold'}), ('0;32', ('idx', 2), None, set()), ('31;49', ('idx', 1), None, set()), ('32', ('idx', 2), None, set()),
              ('31', ('idx', 1), None, set()), ('1;35', ('idx', 5), None, {'bold'}), ('1;36', ('idx', 6), None, {'bold'}), ('1;34', ('idx', 4), None, {'bold'}),
              ('1;33', ('idx', 3), None, {'bold'}), ('35', ('idx', 5), None, set()), ('2;35', ('idx', 5), None, {'dim'}),
              ('3;34', ('idx', 4), None, {'italic'}), ('38;5;208', ('idx', 208), None, set()),
              ('38;2;10;20;30', ('rgb', (10, 20, 30)), None, set()), ('33;44', ('idx', 3), ('idx', 4), set()),
              ('1;38;5;17;48;5;229', ('idx', 17), ('idx', 229), {'bold'}), ('4;36', ('idx', 6), None, {'ul'}),
              ('7;32', ('idx', 2), None, {'reverse'}), ('9;31', ('idx', 1), None, {'strike'}),
              ('95', ('idx', 13), None, set()), ('48;2;1;2;3;38;2;4;5;6', ('rgb', (4, 5, 6)), ('rgb', (1, 2, 3)), set())]
STYLE_NAMES = {'1;35': 'bold purple', '1;36': 'bold cyan', '1;34': 'bold blue', '1;33': 'bold yellow'}


def run_moved(rng):
    """One hunk; some changed lines carry a non-default rendition."""
    nl = rng.randint(2, 7)
    body = []
    expect = []   # per input hunk line: None or (text, fg, bg, attrs)
    tabs = rng.choice([8, 4, 2])
    use_map = rng.random() < 0.35
    mapped = {}
    ordinary = []     # changed lines in git's default colour (or none), neighbours of the specially coloured ones
    subproject_first = rng.random() < 0.12
    for _ in range(nl):
        kind = rng.choice('-+ ')
        text = 'L%d_' % len(body) + gen.rand_text(rng, 40, allow_empty=False, tabs_ok=rng.random() < 0.3)
        if subproject_first and not body:
            # a removed gitlink without its '+' counterpart (submodule removed or moved): delta holds the line back and
            # shows it later as an ordinary hunk line - with the colours it came with
            kind, text = '-', 'Subproject commit ' + ''.join(rng.choice('0123456789abcdef') for _ in range(40))
        if kind != ' ' and (rng.random() < 0.6 or (subproject_first and not body)):
            sgr, fg, bg, attrs = rng.choice(RENDITIONS)
            is_default = (fg, bg, set(attrs)) == ((('idx', 1), None, set()) if kind == '-' else (('idx', 2), None, set()))
            layout = rng.choice(['whole', 'marker-sep'])
            if layout == 'whole':
                raw = E + '[' + sgr + 'm' + kind + text + E + '[m'
            else:
                raw = E + '[' + sgr + 'm' + kind + E + '[m' + E + '[' + sgr + 'm' + text + E + '[m'
            body.append(raw)
            if use_map and sgr in STYLE_NAMES:
                mfg, mbg = rng.choice([(1, '#102030'), (11, '#203010'), (7, '#301020')])
                mapped[STYLE_NAMES[sgr]] = (mfg, mbg)
            if is_default:
                # the rendition amounts to git's default colour for this kind of line (written differently): not special
                expect.append(None)
                ordinary.append((kind, text))
            else:
                expect.append((kind, text, sgr, fg, bg, frozenset(attrs)))
        else:
            col = {'-': '[31m', '+': '[32m'}.get(kind)
            body.append((E + col + kind + text + E + '[m') if col and rng.random() < 0.7 else kind + text)
            expect.append(None)
            if kind in '-+':
                ordinary.append((kind, text))
    o_, n_ = sum(1 for l, e in zip(body, expect) if True), 0
    nm = sum(1 for e, b in zip(expect, body) if (b.replace(E, '')[:6].find('-') >= 0))
    # counts are irrelevant to delta's rendering; use generous ones
    lines = ['diff --git a/m.txt b/m.txt', 'index 1111111..2222222 100644', '--- a/m.txt', '+++ b/m.txt',
             '@@ -1,%d +1,%d @@' % (nl, nl)] + body
    view = 'sbs' if rng.random() < 0.3 else 'unified'
    opts = gen.tagged_styles()
    opts['--paging'] = 'never'
    opts['--tabs'] = tabs
    opts['--syntax-theme'] = 'none'
    if view == 'sbs':
        opts['--side-by-side'] = True
        opts['--width'] = 200
    if rng.random() < 0.4:
        opts['--line-numbers'] = True
    if mapped:
        opts['--map-styles'] = ', '.join('%s => %d %s' % (k, v[0], v[1]) for k, v in mapped.items())
    res = runner.run_delta(gen.to_args(opts), ('\n'.join(lines) + '\n').encode())
    c = crash_outcome(res, ID)
    if c is not None:
        return c
    if res.rc != 0:
        return inconclusive('exit %d: %s' % (res.rc, res.err[:120]))
    rws = term.decode(res.out)
    sets = {'sub': ['moved'], 'views': [view], 'renditions': [e[2] for e in expect if e], 'mapped': ['map-styles' if mapped else 'no-map']}
    counters = {'special_lines': 0, 'cells_compared': 0}
    # find, for every specially coloured line, a row that shows its text with exactly that rendition
    for e in expect:
        if e is None:
            continue
        kind, text, sgr, fg, bg, attrs = e
        shown = rows.expand_tabs(text, tabs)
        if mapped and sgr in STYLE_NAMES and STYLE_NAMES[sgr] in mapped:
            mfg, mbg = mapped[STYLE_NAMES[sgr]]
            want = (('idx', mfg), term.color_of(mbg), frozenset())
        else:
            want = (fg, bg, attrs)
        found = False
        best = None
        for rw in rws:
            t = rw.text()
            k = t.find(shown)
            if k < 0:
                continue
            # locate cells of the occurrence
            pos = 0
            cells = []
            for cidx, cell in enumerate(rw.cells):
                if pos >= k and pos < k + len(shown):
                    cells.append(cell)
                pos += len(cell.ch)
            if not cells:
                continue
            best = cells
            if all((cl.fg, cl.bg, cl.attrs) == want for cl in cells if cl.ch != ' ' or True):
                found = True
                counters['cells_compared'] += len(cells)
                break
        if not found:
            return violated('c08:special-rendition:%s' % ('mapped' if want != (fg, bg, attrs) else 'preserved'),
                            'a changed line that git coloured with a non-default rendition (SGR %s) is not shown in exactly '
                            'that rendition%s' % (sgr, ' mapped by map-styles' if want != (fg, bg, attrs) else ''),
                            expected=repr(want), observed=repr([(cl.ch, cl.fg, cl.bg, sorted(cl.attrs)) for cl in (best or [])][:6]),
                            run=res, counters=counters, sets=sets)
        counters['special_lines'] += 1
    # the neighbours in git's default colours are painted by delta (styles of their kind), not kept raw
    FAM = {'-': ('minus', 'minus_emph', 'minus_nonemph'), '+': ('plus', 'plus_emph', 'plus_nonemph', 'ws_err')}
    for kind, text in ordinary:
        shown = rows.expand_tabs(text, tabs)
        for rw in rws:
            t = rw.text()
            k = t.find(shown)
            if k < 0:
                continue
            pos = 0
            cells = []
            for cell in rw.cells:
                if k <= pos < k + len(shown):
                    cells.append(cell)
                pos += len(cell.ch)
            tags = {gen.TAG_BY_RGB.get(cl.bg) for cl in cells}
            if not tags <= set(FAM[kind]):
                return violated('c08:default-coloured-neighbour-not-painted', 'a changed line in git\'s default colour, next to a specially coloured one, is not painted '
                                'with the styles of its kind', sorted(FAM[kind]), sorted(str(x) for x in tags), run=res, counters=counters, sets=sets)
            counters['ordinary_neighbours'] = counters.get('ordinary_neighbours', 0) + 1
            break
    return held(sig=('moved', tuple(e[2] if e else '.' for e in expect), view, bool(mapped)), nontrivial=counters['special_lines'] > 0,
                counters=counters, sets=sets, sample={'sub': 'moved', 'input': body[:4], 'map_styles': opts.get('--map-styles')})


def run_raw(rng):
    """Elements whose style is raw keep their input colouring (bytes)."""
    d = gen.gen_diff(rng, nsections=1, kinds=['modified'], maxlen=40, simple_paths=True)
    lines = d.lines()
    colored = colorize_variant(d.role_lines(), {'marker_separate': rng.random() < 0.5, 'reset': 'm'}, rng)
    which = rng.choice(['hunk-header', 'minus', 'plus', 'zero', 'file', 'commit'])
    opts = {'--paging': 'never'}
    head = []
    if which == 'commit':
        head = [E + '[33mcommit ' + 'a1b2c3d' * 5 + E + '[m', 'Author: X <x@y>', '']
    full = head + colored
    style_opt = {'hunk-header': '--hunk-header-style', 'minus': '--minus-style', 'plus': '--plus-style',
                 'zero': '--zero-style', 'file': '--file-style', 'commit': '--commit-style'}[which]
    opts[style_opt] = 'raw'
    if rng.random() < 0.3:
        # the switch for the inspection of moved-line colours has no bearing on raw styles
        opts['--inspect-raw-lines'] = 'false'
    if which == 'hunk-header':
        opts['--hunk-header-decoration-style'] = 'none'
    if which == 'file':
        opts['--file-decoration-style'] = 'none'
    res = runner.run_delta(gen.to_args(opts), ('\n'.join(full) + '\n').encode())
    c = crash_outcome(res, ID)
    if c is not None:
        return c
    if res.rc != 0:
        return inconclusive('exit %d: %s' % (res.rc, res.err[:120]))
    out_lines = res.out.decode('utf-8', 'replace').split('\n')
    out_rows = term.decode(res.out, merge=False)
    sets = {'sub': ['raw'], 'raw_element': [which]}
    counters = {'raw_lines_checked': 0}
    # expected raw input lines of that element
    want = []
    roles = [('commit' if l.startswith(E + '[33mcommit') else 'meta', l) for l in head] + d.role_lines()
    for (role, pl), cl in zip(roles, full):
        if which == 'hunk-header' and role == 'hunkheader':
            want.append(cl)
        elif which == 'minus' and role == 'hunk' and pl.startswith('-'):
            want.append(cl)
        elif which == 'plus' and role == 'hunk' and pl.startswith('+'):
            want.append(cl)
        elif which == 'zero' and role == 'hunk' and pl.startswith(' '):
            want.append(cl)
        elif which == 'file' and role == 'header' and pl.startswith(('--- ', '+++ ')):
            want.append(cl)
        elif which == 'commit' and role == 'commit':
            want.append(cl)
    for w in want:
        wrow = term.decode(w, merge=False)[0]
        cells_w = [(c_.ch, c_.fg, c_.bg, c_.attrs) for c_ in wrow.cells]
        if which in ('minus', 'plus', 'zero'):
            cells_w = cells_w[1:]   # marker column removed
            cells_w = [x for x in cells_w]
        ok = False
        for rw in out_rows:
            cells_o = [(c_.ch, c_.fg, c_.bg, c_.attrs) for c_ in rw.cells]
            # tabs are expanded in hunk lines; generator may emit tabs -> compare with tabs expanded to 8 blanks
            exp = []
            for ch, fg, bg, at in cells_w:
                if ch == '\t' and which in ('minus', 'plus', 'zero'):
                    exp += [(' ', fg, bg, at)] * 8
                else:
                    exp.append((ch, fg, bg, at))
            if cells_o[:len(exp)] == exp and all(x[0] == ' ' for x in cells_o[len(exp):]):
                ok = True
                break
        if not ok:
            return violated('c08:raw-element:' + which, 'an element with style raw does not keep its input colouring',
                            expected=w, observed='(no output row with these cells)', run=res, counters=counters, sets=sets)
        counters['raw_lines_checked'] += 1
    return held(sig=('raw', which, tuple(''.join(k for k, _ in h.lines) for h in d.sections[0].hunks)),
                nontrivial=counters['raw_lines_checked'] > 0, counters=counters, sets=sets,
                sample={'sub': 'raw', 'element': which, 'example': want[:2]})


def floors(ctx, agg):
    p = []
    if len(agg.sets.get('sub', ())) < 4:
        p.append('not all four sub-checks produced observations')
    if agg.counters.get('special_lines', 0) < 300:
        p.append('fewer than 300 specially coloured lines compared')
    if len(agg.sets.get('colour_layouts', ())) < 20:
        p.append('fewer than 20 colour layouts')
    return p
