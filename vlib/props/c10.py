"""C10 - file sections render independently of their neighbours; output is deterministic."""
import itertools

from .. import corpus, engine, gen, runner
from ..engine import held, inconclusive, violated, crash_outcome

ID = 'C10'
LEVEL = 'exploration'
RULE = ('sequences of complete file sections (kind x ending: modified/added/deleted/renamed/renamed+changed/copied/'
        'mode-only/mode+changes/binary/binary-added/empty-added/submodule-short/submodule-log, each ending in '
        'zero/minus/plus/no-newline-note/header-only) under a rendering mode; all ordered pairs of (kind,ending) are '
        'enumerated (sampled in quick tier) plus random sequences of 3-6; distinct = (tuple of (kind,ending), mode '
        'name); non-trivial = at least 2 sections')
ASSUMPTIONS = ['each section is a complete file diff as git prints it (starts with its own "diff --git" line)']
CHUNK = 4

KINDS = gen.SECTION_KINDS + ['submodule_short', 'submodule_log', 'binary_noindex', 'combined_binary', 'combined', 'combined_conflict', 'combined_conflict_open', 'submodule_deleted', 'bare_hunk_header']
ENDINGS = [' ', '-', '+', '\\']

MODES = {
    'default': [],
    'line-numbers': ['--line-numbers'],
    'side-by-side': ['--side-by-side', '--width', '100'],
    'navigate': ['--navigate'],
    'diff-so-fancy': ['--diff-so-fancy'],
    'diff-highlight': ['--diff-highlight'],
    'color-only': ['--color-only'],
    'hyperlinks': ['--hyperlinks', '--line-numbers'],
    'markers-buf0': ['--keep-plus-minus-markers', '--line-buffer-size', '0'],
    'sbs-narrow-wrap': ['--side-by-side', '--width', '41', '--wrap-max-lines', '3', '--line-numbers'],
    'raw': ['--raw'],
    'raw-headers': ['--file-style', 'raw', '--file-decoration-style', 'none', '--hunk-header-style', 'raw', '--hunk-header-decoration-style', 'none',
                    '--commit-style', 'raw'],
    'themes': ['--syntax-theme', 'GitHub', '--light', '--hunk-header-style', 'file line-number syntax'],
    # several built-in features enabled by flags in gitconfig: their relative priority must not vary between runs
    'gitconfig-flags': 'GITCONFIG',
}
GITCONFIG_TEXT = '[delta]\n    diff-so-fancy = true\n    line-numbers = true\n    navigate = true\n    hyperlinks = true\n    diff-highlight = true\n'


def shapes():
    out = []
    for k in KINDS:
        if k in ('modified', 'renamed_changed', 'mode_changed'):
            for e in ENDINGS:
                out.append((k, e))
        elif k == 'added':
            out += [(k, '+'), (k, '\\')]
        elif k == 'deleted':
            out += [(k, '-'), (k, '\\')]
        else:
            out.append((k, 'h'))
    return out


SHAPES = shapes()


def make_section_lines(rng, shape, idx, same=None):
    kind, ending = shape
    if kind == 'submodule_short':
        name = 'sub%d' % idx
        return ['diff --git a/%s b/%s' % (name, name), 'index 1111111..2222222 160000', '--- a/' + name, '+++ b/' + name,
                '@@ -1 +1 @@', '-Subproject commit ' + 'a' * 40, '+Subproject commit ' + 'b' * 40]
    if kind == 'submodule_deleted':
        name = 'subdel%d' % idx
        return ['diff --git a/%s b/%s' % (name, name), 'deleted file mode 160000', 'index 1234567..0000000', '--- a/' + name, '+++ /dev/null',
                '@@ -1 +0,0 @@', '-Subproject commit ' + 'c' * 40]
    if kind == 'bare_hunk_header':
        # a section that ends with a hunk header and nothing after it (a truncated diff): the header still belongs to it
        name = 'trunc%d/file.rs' % idx
        return ['diff --git a/%s b/%s' % (name, name), 'index 1111111..2222222 100644', '--- a/' + name, '+++ b/' + name, '@@ -1,2 +1,2 @@ fn first()', ' context',
                '-' + gen.rand_text(rng, 20, allow_empty=False), '+' + gen.rand_text(rng, 20, allow_empty=False), '@@ -40,3 +40,3 @@ fn only_the_header_is_left()']
    if kind == 'submodule_log':
        name = 'sublog%d' % idx
        return ['Submodule %s 1234567..89abcde:' % name, '  > commit message one', '  > commit message two']
    if kind == 'binary_noindex':
        # git diff --no-index of two differently named binary files: no repeated path on the diff line, no ---/+++ lines
        return ['diff --git a/old%d/logo.png b/new%d/logo2.png' % (idx, idx), 'index 3333333..4444444 100644',
                'Binary files a/old%d/logo.png and b/new%d/logo2.png differ' % (idx, idx)]
    if kind == 'combined_binary':
        return ['diff --cc assets%d/icon.png' % idx, 'index 5555555,6666666..7777777', 'Binary files differ']
    if kind in ('combined', 'combined_conflict', 'combined_conflict_open'):
        conflict = kind != 'combined' or rng.random() < 0.3
        # (_open: the last region of the file is never closed - its '>>>>>>>' marker already deleted while resolving: what
        # was collected for it goes out, and away, when the next section begins)
        ls, _m, _p = corpus.gen_combined(rng, conflict=conflict, nconflicts=rng.choice([1, 1, 2]), styles=('diff3', 'merge'),
                                         lead=rng.choice([None, None, 0]) if conflict else None,     # (no hunk without lines)
                                         unterminated=kind == 'combined_conflict_open')
        ls = [l.replace(_p, 'cc%d/%s' % (idx, _p)) if l.startswith(('diff --cc', '--- ', '+++ ')) else l for l in ls]
        return ls
    s = gen.gen_section(rng, kind, simple_paths=True, maxlines=6, maxlen=50)
    # distinct paths per position
    if same:
        # neighbouring sections about the very same file (staged + unstaged change, mode change then edit): state keyed
        # on the file pair must still be reset between them
        s.old_path = same
        s.new_path = same if kind not in ('renamed', 'renamed_changed', 'copied') else 'q/' + same
    else:
        s.old_path = 'p%d/%s' % (idx, s.old_path)
        s.new_path = 'p%d/%s' % (idx, s.new_path) if kind not in ('renamed', 'renamed_changed', 'copied') else 'q%d/%s' % (idx, s.new_path)
    if s.hunks:
        h = s.hunks[-1]
        if ending == '\\':
            last = [l for l in h.lines if l[0] != '\\']
            h.lines = last + [('\\', '')]
        else:
            want = ending
            if kind == 'added':
                want = '+'
            if kind == 'deleted':
                want = '-'
            lines = [l for l in h.lines if l[0] != '\\']
            while lines and lines[-1][0] != want:
                lines.pop()
            if not lines:
                lines = [(want, gen.rand_text(rng, 30, allow_empty=False))]
            h.lines = lines
    return gen.Diff([s]).lines()


def plan(ctx):
    items = []
    pairs = list(itertools.product(range(len(SHAPES)), repeat=2))
    modes = sorted(MODES)
    rng = ctx.rng('c10-plan')
    if ctx.tier == 'thorough':
        k = 0
        for (a, b) in pairs:
            for m in modes:
                items.append(('seq', engine.stable_hash((ctx.seed, 'pair', a, b, m)), (a, b), m, 6))
        for i in range(ctx.n(0, 6000)):
            n = rng.randint(3, 6)
            items.append(('seq', engine.stable_hash((ctx.seed, 'seq', i)), tuple(rng.randrange(len(SHAPES)) for _ in range(n)),
                          rng.choice(modes), 3))
    else:
        rng.shuffle(pairs)
        for i, (a, b) in enumerate(pairs):     # (every ordered pair of shapes, one mode each; the thorough tier runs every pair in every mode)
            items.append(('seq', engine.stable_hash((ctx.seed, 'pair', a, b)), (a, b), modes[i % len(modes)], 3))
        for i in range(ctx.n(250, 0)):
            n = rng.randint(3, 6)
            items.append(('seq', engine.stable_hash((ctx.seed, 'seq', i)), tuple(rng.randrange(len(SHAPES)) for _ in range(n)),
                          rng.choice(modes), 3))
    for i in range(ctx.n(150, 4000)):
        items.append(('plainseq', engine.stable_hash((ctx.seed, 'plainseq', i)), None, modes[i % len(modes)], 3))
    return items


def plain_section_lines(rng, flavour, idx, ending, same):
    """One file section of `diff -u` (flavour 'plain') or `diff -ru` (flavour 'plainr') output."""
    s = gen.gen_section(rng, 'modified', simple_paths=True, maxlines=6, maxlen=50)
    if same:
        s.old_path = s.new_path = same
    else:
        s.old_path = 'p%d/%s' % (idx, s.old_path)
        s.new_path = s.old_path if rng.random() < 0.7 else 'q%d/%s' % (idx, s.new_path)
    h = s.hunks[-1]
    lines = [l for l in h.lines if l[0] != '\\']
    if ending == '\\':
        h.lines = lines + [('\\', '')]
    else:
        while lines and lines[-1][0] != ending:
            lines.pop()
        h.lines = lines or [(ending, gen.rand_text(rng, 30, allow_empty=False))]
    out = gen.Diff([s], fmt=flavour).lines()
    if rng.random() < 0.3:
        # empty context lines that lost their blank (GNU diff --suppress-blank-empty, or an editor stripping trailing blanks)
        for hh in s.hunks:
            hh.lines = [(k, '' if k == ' ' and rng.random() < 0.6 else t) for k, t in hh.lines]
        out = [('' if l == ' ' else l) for l in gen.Diff([s], fmt=flavour).lines()]
    return out


def EXHAUSTIVE(ctx):
    return ctx.tier == 'thorough'


EXHAUSTIVE_SCOPE = 'all ordered pairs of the %d (kind, ending) shapes x %d modes (thorough tier); contents of each shape are sampled' % (len(SHAPES), len(MODES))


def run_item(item):
    kind0, seed, shape_idx, mode, reps = item
    rng = engine.item_rng(seed)
    same = rng.choice(['same/file.rs', 'LICENSE', 'dir/notes.xyzzy', 'a b/c d.py']) if rng.random() < 0.25 else None
    if kind0 == 'plainseq':
        # a stream of plain `diff -u` / `diff -ru` sections (a patch series): sections start at their '--- ' / 'diff -ru' line
        flavour = rng.choice(['plain', 'plainr'])
        endings = [rng.choice(ENDINGS) for _ in range(rng.randint(2, 5))]
        shape_idx = tuple(SHAPES.index(('modified', e)) for e in endings)
        secs = [plain_section_lines(rng, flavour, i, e, same) for i, e in enumerate(endings)]
    else:
        secs = [make_section_lines(rng, SHAPES[k], i, same) for i, k in enumerate(shape_idx)]
    if MODES[mode] == 'GITCONFIG':
        args = ['--paging', 'never', '--config', runner.write_file('c10.gitconfig', GITCONFIG_TEXT)]
        reps = max(reps, 6)
    else:
        args = ['--paging', 'never'] + MODES[mode]
    whole_in = ('\n'.join(l for s in secs for l in s) + '\n').encode()
    outs = []
    counters = {'sections': len(secs), 'determinism_reruns': 0}
    sets = {'modes': [mode], 'shapes': ['%s/%s' % SHAPES[k] for k in shape_idx], 'same_file_in_all_sections': [same or 'no'],
            'source': [kind0 if kind0 != 'plainseq' else 'plain-diff:' + flavour]}
    whole = runner.run_delta(args, whole_in, trace=(seed % 4 == 0))
    if whole.trace is not None:
        sets['state_transitions'] = engine.transitions(whole.trace)
    c = crash_outcome(whole, ID, counters)
    if c is not None:
        return c
    if whole.rc != 0:
        return inconclusive('exit %d: %s' % (whole.rc, whole.err[:100]))
    parts = []
    for s in secs:
        r = runner.run_delta(args, ('\n'.join(s) + '\n').encode())
        c = crash_outcome(r, ID, counters)
        if c is not None:
            return c
        parts.append(r.out)
    execs = 1 + len(secs)
    concat = b''.join(parts)
    if concat != whole.out:
        # locate first differing section boundary
        pos = 0
        while pos < min(len(concat), len(whole.out)) and concat[pos] == whole.out[pos]:
            pos += 1
        acc = 0
        sec_no = 0
        for i, p in enumerate(parts):
            if pos < acc + len(p):
                sec_no = i
                break
            acc += len(p)
        else:
            sec_no = len(parts) - 1
        prev_shape = SHAPES[shape_idx[sec_no - 1]] if sec_no > 0 else None
        key = 'c10:concat:%s->%s' % ('%s/%s' % prev_shape if prev_shape else 'start', '%s/%s' % SHAPES[shape_idx[sec_no]])
        o = violated(key, 'stdout(A1..An) differs from stdout(A1)..stdout(An); first difference at byte %d, in the '
                     'rendering of section %d (%s) after %s' % (pos, sec_no, SHAPES[shape_idx[sec_no]], prev_shape),
                     expected=concat[max(0, pos - 200):pos + 200].decode('utf-8', 'replace'),
                     observed=whole.out[max(0, pos - 200):pos + 200].decode('utf-8', 'replace'), run=whole,
                     counters=counters, sets=sets)
        o['executions'] = execs
        return o
    # determinism: fresh processes, shuffled environment order
    for j in range(reps - 1):
        env = {'ZZ_ORDER_%d' % j: 'x', 'AA_ORDER_%d' % j: 'y'}
        r = runner.run_delta(args, whole_in, env=env)
        execs += 1
        counters['determinism_reruns'] += 1
        if r.out != whole.out or r.rc != whole.rc:
            o = violated('c10:nondeterministic:' + mode, 'two runs on the same input and options produced different bytes',
                         run=r, counters=counters, sets=sets)
            o['executions'] = execs
            return o
    o = held(sig=(tuple(shape_idx), mode), nontrivial=len(secs) >= 2, counters=counters, sets=sets,
             sample={'mode': mode, 'shapes': sets['shapes'], 'input_head': [s[0] for s in secs],
                     'stdout_bytes': len(whole.out)})
    o['executions'] = execs
    return o


def floors(ctx, agg):
    p = []
    if len(agg.sets.get('shapes', ())) < len(SHAPES):
        p.append('not every (kind, ending) shape was exercised')
    if len(agg.sets.get('modes', ())) < len(MODES):
        p.append('not every mode was exercised')
    return p
