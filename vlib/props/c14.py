"""C14 - one header per file section (right file, right event) and one per hunk."""
import re
from .. import engine, gen, rows, runner, term
from ..engine import held, inconclusive, violated, crash_outcome

ID = 'C14'
LEVEL = 'exploration'
RULE = ('sequences of file sections of every kind (modified/added/deleted/renamed/renamed+changed/copied/mode-only/mode+changes/'
        'binary/binary-added/empty-added/submodule-log) x path shapes (spaces with git\'s trailing tab, non-ASCII, mnemonic '
        'prefixes c/ i/ o/ w/, paths that themselves start with a/ or b/, long) x git and plain-diff sources x label/arrow/'
        'decoration/hunk-header-style settings; the rendered rows are walked strictly against the model: one header row per '
        'section with exactly the expected text, one header row per hunk carrying the fragment; distinct = (section kinds, path '
        'shape classes, source format, option classes); non-trivial = at least 2 sections or a rename/copy')
ASSUMPTIONS = ['file and hunk header rows are recognised by reserved colours; labels and arrow are always given explicitly so that '
               'the expected header text is known']
CHUNK = 6

PREFIX_PAIRS = [('a/', 'b/'), ('a/', 'b/'), ('a/', 'b/'), ('i/', 'w/'), ('c/', 'i/'), ('c/', 'w/'), ('o/', 'w/')]


def plan(ctx):
    n = ctx.n(7000, 120000)
    return [('case', engine.stable_hash((ctx.seed, 'c14', i))) for i in range(n)] + \
        [('combined', engine.stable_hash((ctx.seed, 'c14cc', i))) for i in range(ctx.n(800, 15000))]


def run_combined(seed):
    """Combined (merge) diffs: one file header per section and one hunk header per '@@@' line, also when a conflict
    region starts on the first line of a hunk."""
    from .. import corpus
    rng = engine.item_rng(seed)
    nsec = rng.choice([1, 1, 2, 3])
    lines, nh, leads = [], [], []
    for i in range(nsec):
        conflict = rng.random() < 0.6
        lead = rng.choice([0, 0, None]) if conflict else None
        k = rng.choice([1, 2, 3])
        ls, _m, _p = corpus.gen_combined(rng, conflict=conflict, nparents=2 if conflict else rng.choice([2, 3]), nhunks=k,
                                         nconflicts=rng.choice([1, 2]), styles=('diff3', 'merge'), lead=lead)
        ls = [l.replace(_p, 'cc%d/%s' % (i, _p)) if l.startswith(('diff --cc', '--- ', '+++ ')) else l for l in ls]
        lines += ls
        nh.append(k)
        leads.append(lead)
    opts = gen.tagged_styles()
    opts['--paging'] = 'never'
    opts['--hunk-header-style'] = gen.TAGS['hh'] + ' line-number'
    cls = ['combined']
    for name, p_ in (('--line-numbers', 0.3), ('--navigate', 0.2), ('--hyperlinks', 0.2)):
        if rng.random() < p_:
            opts[name] = True
            cls.append(name.lstrip('-'))
    if rng.random() < 0.3:
        opts['--line-buffer-size'] = rng.choice([0, 1, 32])
    res = runner.run_delta(gen.to_args(opts), ('\n'.join(lines) + '\n').encode())
    c = crash_outcome(res, ID)
    if c is not None:
        return c
    if res.rc != 0:
        return inconclusive('exit %d: %s' % (res.rc, res.err[:120]))
    infos = [i for i in rows.classify_all(res.out) if i.kind in ('file', 'hunk')]
    got = []
    for i in infos:
        if i.kind == 'file':
            got.append(['file', 0])
        elif got:
            got[-1][1] += 1
        else:
            got.append(['none', 1])
    counters = {'file_headers': sum(1 for g in got if g[0] == 'file'), 'hunk_headers': sum(g[1] for g in got), 'combined_sections': nsec}
    sets = {'section_kinds': ['combined' + ('-conflict-first' if 0 in leads else '')], 'option_classes': cls, 'format': ['combined']}
    exp = [['file', k] for k in nh]
    if got != exp:
        key = 'combined:file-headers' if [g[0] for g in got] != [e[0] for e in exp] else 'combined:hunk-headers'
        return violated('c14:' + key, 'a combined diff of %d section(s) with %s hunks is shown with other file / hunk header rows (conflict region '
                        'first in the last hunk: %s)' % (nsec, nh, [l == 0 for l in leads]), exp, got, run=res, counters=counters, sets=sets)
    return held(sig=('combined', tuple(nh), tuple(leads), tuple(sorted(cls))), nontrivial=True, counters=counters, sets=sets,
                sample={'input_head': lines[:8], 'hunks_per_section': nh})


def rand_path_shape(rng):
    r = rng.random()
    if r < 0.3:
        return gen.rand_path(rng, simple=True), 'simple'
    if r < 0.45:
        return rng.choice(['dir with space/file name.txt', 'a b.rs', 'x/y z/w.c']), 'space'
    if r < 0.6:
        return rng.choice(['ünï/cödé.rs', '日本/語.txt', 'dir/naïve file.md']), 'non-ascii'
    if r < 0.72:
        return rng.choice(['b/inner.rs', 'a/inner.py', 'b/b/b.c', 'a/b/c.js', 'i/w.go']), 'prefix-like'
    if r < 0.8:
        return '/'.join(['deep%d' % i for i in range(12)]) + '/very_long_file_name_' + 'x' * 40 + '.rs', 'long'
    if r < 0.86:
        # as git writes a path with non-ASCII bytes, a tab or a quote under core.quotePath: quoted, with C escapes.
        # delta removes the quotes and shows the escapes as they are
        return rng.choice(['\\303\\274n\\303\\257/c\\303\\266d\\303\\251.rs', 'tab\\there.txt', 'q\\"uote.py', 'back\\\\slash.c',
                           'sp ac\\303\\251.txt', 'my dir/na\\303\\257ve file.md']), 'git-quoted'
    if r < 0.9:
        return rng.choice(['Makefile', 'LICENSE', '.gitignore', '.hidden/x', 'no_ext']), 'no-ext'
    return rng.choice(['weird-@@-name.rs', 'plus+minus-.txt', 'colon:name.c', "quote'name.py"]), 'punct'


class Sec(object):
    pass


def make_section(rng, kind, idx, pa, pb):
    s = Sec()
    s.kind = kind
    s.old, oc = rand_path_shape(rng)
    while oc == 'git-quoted' and kind in ('binary_noindex', 'binary_cc', 'binary_bare', 'submodule_log'):
        s.old, oc = rand_path_shape(rng)
    if oc == 'prefix-like' and rng.random() < 0.6:
        # the top-level directory itself is called like one of git's prefixes (a/ b/ c/ i/ o/ w/)
        s.old = s.old.replace('/', '/s%d_' % idx, 1)
    else:
        s.old = 's%d/' % idx + s.old
    s.new = s.old
    s.classes = {oc}
    if kind in ('renamed', 'renamed_changed', 'copied', 'binary_noindex', 'binary_renamed', 'binary_copied'):
        s.new, nc = rand_path_shape(rng)
        while nc == 'git-quoted' and kind == 'binary_noindex':
            s.new, nc = rand_path_shape(rng)
        if nc == 'prefix-like' and rng.random() < 0.6:
            s.new = s.new.replace('/', '/t%d_' % idx, 1)
        else:
            s.new = 't%d/' % idx + s.new
        s.classes.add(nc)
    s.old_mode, s.new_mode = '100644', '100644'
    if kind in ('mode_only', 'mode_changed'):
        s.old_mode, s.new_mode = rng.choice([('100644', '100755'), ('100755', '100644'), ('100644', '120000')])
    s.hunks = []
    if kind in ('modified', 'renamed_changed', 'mode_changed'):
        s.hunks = gen.gen_hunks(rng, rng.choice([1, 1, 2]), maxlines=5, maxlen=30, tabs_ok=False)
    elif kind == 'added':
        s.hunks = [gen.Hunk(0, 1, [('+', gen.rand_text(rng, 30, tabs_ok=False)) for _ in range(rng.randint(1, 3))])]
    elif kind == 'deleted':
        s.hunks = [gen.Hunk(1, 0, [('-', gen.rand_text(rng, 30, tabs_ok=False)) for _ in range(rng.randint(1, 3))])]
    if kind in ('deleted', 'modified', 'renamed_changed') and s.hunks and rng.random() < (0.25 if kind == 'deleted' else 0.06):
        # a removed submodule (git's default diff.submodule=short), or a text file whose hunk happens to begin like one:
        # '-Subproject commit <hash>' without a '+' counterpart is an ordinary removed line of an ordinary hunk
        h0 = s.hunks[0]
        rest = [x for x in h0.lines[1:] if not (x[0] == '+' and x[1].startswith('Subproject commit'))] if kind != 'deleted' else []
        if not (rest and rest[0][0] == '+'):
            h0.lines = [('-', 'Subproject commit ' + ''.join(rng.choice('0123456789abcdef') for _ in range(40)))] + rest
            s.classes.add('unpaired-subproject-line')
    for h in s.hunks:
        h.lines = [(kk, t) for kk, t in h.lines if kk != '\\']
        h.fragment = rng.choice(gen.FRAGMENTS + ['struct X {', 'a @@ b', '\tindented with tab', 'trailing space  '])
    s.pa, s.pb = pa, pb
    s.cc_word = rng.choice(['cc', 'combined'])
    # diff -u output whose empty context lines lost their blank (an editor or a mail client that strips trailing white space;
    # GNU diff --suppress-blank-empty writes them that way itself): only used for the plain format
    s.strip_blank = rng.random() < 0.3
    if s.strip_blank:
        for h in s.hunks:
            h.lines = [(kk, '' if kk == ' ' and rng.random() < 0.6 else t) for kk, t in h.lines]
    return s


def tab_if_space(p):
    return p + ('\t' if ' ' in p else '')


def gq(prefix, p, tab=True):
    """prefix + path as git writes it on diff / --- / +++ / rename lines (quoted when it holds escapes)."""
    if '\\' in p:
        # (git also appends its tab to a quoted name that contains a space, after the closing quote)
        return '"%s%s"' % (prefix, p) + ('\t' if tab and ' ' in p else '')
    return prefix + (tab_if_space(p) if tab else p)


def section_lines(s, fmt):
    a, b, pa, pb = s.old, s.new, s.pa, s.pb
    k = s.kind
    if k == 'binary_bare':
        return ['Binary files old/%s and new/%s differ' % (a, a)]
    if fmt == 'plain':
        L = ['--- %s\t2020-01-01 00:00:00.000000000 +0000' % a, '+++ %s\t2020-01-02 00:00:00.000000000 +0000' % b]
    elif k == 'submodule_log':
        return ['Submodule %s 1234567..89abcde:' % a, '  > a commit message']
    else:
        L = ['diff --git %s %s' % (gq(pa, a, False), gq(pb, b, False))]
        if k == 'binary_cc':
            L = ['diff --%s %s' % (s.cc_word, b), 'index 1111111,2222222..3333333', 'Binary files differ']
        idx = 'index 1111111..2222222'
        if k == 'modified':
            L += [idx + ' 100644', '--- ' + gq(pa, a), '+++ ' + gq(pb, b)]
        elif k == 'added':
            L += ['new file mode 100644', 'index 0000000..2222222', '--- /dev/null', '+++ ' + gq(pb, b)]
        elif k == 'empty_added':
            L += ['new file mode 100644', 'index 0000000..e69de29']
        elif k == 'deleted':
            L += ['deleted file mode 100644', 'index 1111111..0000000', '--- ' + gq(pa, a), '+++ /dev/null']
        elif k == 'renamed':
            L += ['similarity index 100%', 'rename from ' + gq('', a, False), 'rename to ' + gq('', b, False)]
        elif k == 'renamed_changed':
            L += ['similarity index 90%', 'rename from ' + gq('', a, False), 'rename to ' + gq('', b, False), idx + ' 100644',
                  '--- ' + gq(pa, a), '+++ ' + gq(pb, b)]
        elif k == 'copied':
            L += ['similarity index 100%', 'copy from ' + gq('', a, False), 'copy to ' + gq('', b, False)]
        elif k == 'mode_only':
            L += ['old mode %s' % s.old_mode, 'new mode %s' % s.new_mode]
        elif k == 'mode_changed':
            L += ['old mode %s' % s.old_mode, 'new mode %s' % s.new_mode, idx, '--- ' + gq(pa, a),
                  '+++ ' + gq(pb, b)]
        elif k == 'binary':
            L += [idx + ' 100644', 'Binary files %s and %s differ' % (gq(pa, a, False), gq(pb, b, False))]
        elif k == 'binary_noindex':
            # git diff --no-index dirA dirB: two different paths and no ---/+++ lines
            L += [idx + ' 100644', 'Binary files %s and %s differ' % (gq(pa, a, False), gq(pb, b, False))]
        elif k in ('binary_renamed', 'binary_copied'):
            # a binary file renamed / copied and changed
            w = 'rename' if k == 'binary_renamed' else 'copy'
            L += ['similarity index 90%', w + ' from ' + gq('', a, False), w + ' to ' + gq('', b, False), idx + ' 100644',
                  'Binary files %s and %s differ' % (gq(pa, a, False), gq(pb, b, False))]
        elif k == 'binary_mode_changed':
            L += ['old mode 100644', 'new mode 100755', idx, 'Binary files %s and %s differ' % (gq(pa, a, False), gq(pb, b, False))]
        elif k == 'binary_added':
            L += ['new file mode 100644', 'index 0000000..2222222', 'Binary files /dev/null and %s differ' % gq(pb, b, False)]
    for h in s.hunks:
        L.append(h.header())
        L += ['' if (fmt == 'plain' and s.strip_blank and kk == ' ' and not t) else kk + t for kk, t in h.lines]
    return L


def expected_header(s, fmt, labels, arrow):
    def lab(x):
        return x + ' ' if x else ''
    k = s.kind
    if k == 'submodule_log':
        return 'Submodule %s 1234567..89abcde:' % s.old
    if k == 'binary_bare':
        return 'Binary files old/%s and new/%s differ' % (s.old, s.old)
    if fmt == 'plain':
        return '%s%s %s %s' % (lab(labels['modified']), s.old, arrow, s.new)
    mode = ''
    if k in ('mode_only', 'mode_changed'):
        if (s.old_mode, s.new_mode) == ('100644', '100755'):
            mode = ' (mode +x)'
        elif (s.old_mode, s.new_mode) == ('100755', '100644'):
            mode = ' (mode -x)'
        else:
            mode = ' (mode %s %s %s)' % (s.old_mode, arrow, s.new_mode)
    if k in ('modified', 'mode_only', 'mode_changed'):
        return lab(labels['modified']) + s.new + mode
    if k in ('added', 'empty_added'):
        return lab(labels['added']) + s.new
    if k == 'deleted':
        return lab(labels['removed']) + s.old
    if k in ('renamed', 'renamed_changed', 'binary_renamed'):
        return '%s%s %s %s' % (lab(labels['renamed']), s.old, arrow, s.new)
    if k in ('copied', 'binary_copied'):
        return '%s%s %s %s' % (lab(labels['copied']), s.old, arrow, s.new)
    if k == 'binary_noindex':
        return 'Binary files %s%s and %s%s differ' % (s.pa, s.old, s.pb, s.new)      # passed through, it names both files
    if k == 'binary_mode_changed':
        return lab(labels['modified']) + s.new + ' (binary file) (mode +x)'
    if k in ('binary', 'binary_cc'):
        return lab(labels['modified']) + s.new + ' (binary file)'
    if k == 'binary_added':
        return lab(labels['added']) + s.new + ' (binary file)'
    raise ValueError(k)


def run_item(item):
    _, seed = item
    if item[0] == 'combined':
        return run_combined(seed)
    rng = engine.item_rng(seed)
    fmt = 'plain' if rng.random() < 0.1 else 'git'
    kinds_all = gen.SECTION_KINDS + ['submodule_log', 'binary_noindex', 'binary_cc', 'binary_renamed', 'binary_copied', 'binary_mode_changed']
    n = rng.choice([1, 2, 2, 3, 4])
    pa, pb = rng.choice(PREFIX_PAIRS)
    secs = []
    for i in range(n):
        kind = rng.choice(['modified'] * 4 + ['binary_bare']) if fmt == 'plain' else rng.choice(kinds_all)
        secs.append(make_section(rng, kind, i, pa, pb))
        if fmt == 'plain' and i and kind == 'modified' and secs[i - 1].kind == 'modified' and rng.random() < 0.3:
            # a patch series: the next section is about the same two files again
            secs[i].old, secs[i].new = secs[i - 1].old, secs[i - 1].new
    opts = gen.tagged_styles()
    opts['--paging'] = 'never'
    cls = []
    labels = {'modified': rng.choice(['', '', 'M', 'changed:']), 'added': rng.choice(['added:', 'A', 'new file:']),
              'removed': rng.choice(['removed:', 'D']), 'renamed': rng.choice(['renamed:', 'R', 'moved:']),
              'copied': rng.choice(['copied:', 'C'])}
    opts['--file-modified-label'] = labels['modified']
    opts['--file-added-label'] = labels['added']
    opts['--file-removed-label'] = labels['removed']
    opts['--file-renamed-label'] = labels['renamed']
    opts['--file-copied-label'] = labels['copied']
    arrow = rng.choice(['⟶  ', '->', '=> ', '→'])
    opts['--right-arrow'] = arrow
    hh = rng.choice(['line-number', 'file line-number', '', 'file'])
    opts['--hunk-header-style'] = (gen.TAGS['hh'] + ' ' + hh).strip()
    opts['--hunk-label'] = rng.choice(['', '', 'H:'])
    if rng.random() < 0.5:
        opts['--file-decoration-style'] = (gen.TAGS['file_dec'] + ' ' + rng.choice(gen.DECORATIONS)).strip()
        opts['--hunk-header-decoration-style'] = (gen.TAGS['hh_dec'] + ' ' + rng.choice(gen.DECORATIONS)).strip()
        cls.append('decor')
    for name, p in (('--line-numbers', 0.3), ('--side-by-side', 0.25), ('--navigate', 0.2), ('--hyperlinks', 0.2),
                    ('--keep-plus-minus-markers', 0.1)):
        if rng.random() < p:
            opts[name] = True
            cls.append(name.lstrip('-'))
    if rng.random() < 0.3:
        opts['--width'] = rng.choice([60, 100, 200, 'variable'])
    if rng.random() < 0.3:
        opts['--line-buffer-size'] = rng.choice([0, 1, 32])
    opts['--syntax-theme'] = rng.choice(['none', 'GitHub', 'Dracula'])
    lines = []
    log_mode = fmt == 'git' and rng.random() < 0.2
    if log_mode:
        cls.append('log-p')
    for s in secs:
        if log_mode and rng.random() < 0.7:
            # git log -p: a commit header (and sometimes a diff-stat block) between file sections
            from .. import corpus
            head, _h = corpus.commit_header(rng)
            lines += head
            if rng.random() < 0.4:
                lines += corpus.diffstat_lines(rng, ['x/%s' % s.new.replace('\\', '')])
        lines += section_lines(s, fmt)
    res = runner.run_delta(gen.to_args(opts), ('\n'.join(lines) + '\n').encode())
    c = crash_outcome(res, ID)
    if c is not None:
        return c
    if res.rc != 0:
        return inconclusive('exit %d: %s' % (res.rc, res.err[:120]))
    infos = [i for i in rows.classify_all(res.out) if i.kind != 'dec']
    counters = {'file_headers': 0, 'hunk_headers': 0, 'fragments_compared': 0}
    path_classes = sorted(set().union(*[s.classes for s in secs]))
    sets = {'section_kinds': [s.kind for s in secs], 'path_classes': path_classes, 'option_classes': cls, 'format': [fmt],
            'prefixes': [pa + pb]}

    def bad(key, what, exp, obs):
        return violated('c14:' + key, what, exp, obs, run=res, counters=counters, sets=sets)
    pos = 0

    def skip_blank(p, stop_text=None, text_too=True):
        # (in log mode also the commit header / message / diff-stat rows, which carry no reserved colour)
        while p < len(infos) and (infos[p].kind == 'blank' or (log_mode and text_too and infos[p].kind == 'text' and
                                                               (stop_text is None or ' '.join(infos[p].text.split()) != ' '.join(stop_text.split())))):
            p += 1
        return p

    def norm(t):
        return ' '.join(t.split())
    for si, s in enumerate(secs):
        exp = expected_header(s, fmt, labels, arrow)
        pos = skip_blank(pos, exp if s.kind in ('binary_noindex', 'binary_bare', 'submodule_log') else None)
        if pos >= len(infos):
            return bad('header-missing:' + s.kind, 'file header of section %d (%s) is missing' % (si, s.kind), exp, 'end of output')
        info = infos[pos]
        if s.kind == 'binary_bare':
            # diff -r prints the line bare between sections; shown as a header-like row or passed through
            got = info.text if info.kind != 'file' else ''.join(c.ch for c in info.row.cells if gen.TAG_BY_RGB.get(c.fg) == 'file')
            if norm(got) != norm(exp):
                return bad('header-missing:' + s.kind, 'the line of diff -r output reporting two binary files is missing', exp, info.text[:200])
            counters['file_headers'] += 1
            pos += 1
            continue
        if s.kind == 'binary_noindex':
            if info.kind == 'file':
                return bad('header-text:' + s.kind, 'a binary section with two different paths gets a file header naming another file', exp, info.text[:200])
            if norm(info.text) != norm(exp):
                return bad('header-missing:' + s.kind, 'the line reporting the two binary files is missing', exp, info.text[:200])
            counters['file_headers'] += 1
            pos += 1
            continue
        if info.kind != 'file':
            return bad('header-missing:' + s.kind, 'expected the file header of section %d (%s), found a %s row' % (si, s.kind, info.kind), exp, info.text[:200])
        got = ''.join(c.ch for c in info.row.cells if gen.TAG_BY_RGB.get(c.fg) == 'file').strip()
        noted = True
        if s.kind in ('binary_renamed', 'binary_copied'):
            # the note may be shown with the two names - or the 'Binary files' line follows the header as it is
            noted = ' (binary file)' in got
            got = got.replace(' (binary file)', '')
        if norm(got) != norm(exp):
            return bad('header-text:' + s.kind, 'file header of a %s section does not name the right file/event' % s.kind, exp, got)
        counters['file_headers'] += 1
        pos += 1
        if not noted:
            q = pos
            while q < len(infos) and infos[q].kind == 'blank':
                q += 1
            if q < len(infos) and infos[q].kind == 'text' and infos[q].text.startswith('Binary files '):
                pos = q + 1
            else:
                return bad('binary-not-reported:' + s.kind, 'a %s section: neither its header nor a line after it says that the file is binary' % s.kind,
                           'a "(binary file)" note or the "Binary files ... differ" line', infos[q].text[:100] if q < len(infos) else 'end of output')
        if s.kind == 'submodule_log':
            if pos < len(infos) and infos[pos].kind == 'text':
                pos += 1
        consumed_all = False
        for h in s.hunks:
            pos = skip_blank(pos, text_too=False)      # (rows of the commit header that follows belong to the next section)
            frag = h.fragment
            if consumed_all and not (bool(hh) or bool(frag.strip())):
                continue     # side-by-side rows of this header-less hunk were consumed with the previous one
            expect_row = bool(hh) or bool(frag.strip()) or bool(opts['--hunk-label'])
            if pos < len(infos) and infos[pos].kind == 'hunk':
                got = ''.join(c.ch for c in infos[pos].row.cells if gen.TAG_BY_RGB.get(c.fg) == 'hh')
                if got.strip() != frag.replace('\t', ' ' * 8).strip() and got.strip() != frag.strip():
                    return bad('fragment', 'hunk header does not carry the code fragment git supplied', frag, got)
                if frag.strip() and '--tabs' not in opts:
                    # unchanged also means its own blanks: the fragment is shown between two blanks, with its leading and
                    # trailing white space (tabs as 8 columns)
                    core = frag.replace('\t', ' ' * 8)
                    if core not in got or not got.rstrip(' ').endswith(core.rstrip(' ')) or len(got) - len(got.lstrip(' ')) < len(core) - len(core.lstrip(' ')):
                        return bad('fragment-blanks', 'hunk header shows the code fragment with other leading / trailing blanks than git supplied', core, got)
                counters['hunk_headers'] += 1
                counters['fragments_compared'] += 1 if frag.strip() else 0
                pos += 1
            elif hh or frag.strip():
                return bad('hunk-header-missing', 'hunk header row missing', h.header(), infos[pos].text[:100] if pos < len(infos) else 'end')
            leading = not (pos > 0 and infos[pos - 1].kind == 'hunk')
            for kk, t in h.lines:
                if not t.strip() and pos < len(infos) and infos[pos].kind == 'blank':
                    pos += 1     # an empty line may render as an empty row
                    continue
                if not t.strip() and leading and not (pos < len(infos) and infos[pos].kind == 'code'
                                                      and re.match(r'^[\s\d\u22ee\u2502:+-]*$', infos[pos].text)):
                    # the hunk has no header row, and the empty rows of its first lines went with the blank rows skipped above
                    continue
                leading = leading and not t.strip()
                if pos >= len(infos) or infos[pos].kind != 'code':
                    if pos < len(infos) and infos[pos].kind == 'file':
                        return bad('header-duplicated-or-early', 'a file header row appears inside the hunk lines of section %d (%s)' % (si, s.kind),
                                   'code row', infos[pos].text[:200])
                    if pos < len(infos) and infos[pos].kind == 'hunk':
                        return bad('hunk-header-duplicated', 'an extra hunk header row appears inside a hunk', 'code row', infos[pos].text[:200])
                    return inconclusive('oracle could not align code rows (empty lines render as blank rows)')
                if '--side-by-side' in opts:
                    # one or more rows per line pair: consume all rows of this hunk instead
                    break
                pos += 1
            if '--side-by-side' in opts:
                consumed_all = True
                while pos < len(infos) and infos[pos].kind in ('code', 'blank'):
                    if infos[pos].kind == 'blank' and not (pos + 1 < len(infos) and infos[pos + 1].kind == 'code'):
                        break
                    pos += 1
    while pos < len(infos):
        if infos[pos].kind == 'file':
            return bad('header-extra', 'an extra file header row after the last section', None, infos[pos].text[:200])
        if infos[pos].kind == 'hunk':
            return bad('hunk-header-extra', 'an extra hunk header row after the last hunk', None, infos[pos].text[:200])
        pos += 1
    nontrivial = len(secs) >= 2 or any(s.kind in ('renamed', 'renamed_changed', 'copied') for s in secs)
    return held(sig=(tuple(s.kind for s in secs), tuple(path_classes), fmt, tuple(sorted(cls)), pa), nontrivial=nontrivial,
                counters=counters, sets=sets, sample={'input_head': lines[:6], 'expected_headers': [expected_header(s, fmt, labels, arrow) for s in secs]})


def floors(ctx, agg):
    p = []
    if len(agg.sets.get('section_kinds', ())) < 12:
        p.append('fewer than 12 section kinds')
    if agg.counters.get('file_headers', 0) < 4000:
        p.append('fewer than 4000 file headers compared')
    if agg.counters.get('fragments_compared', 0) < 800:
        p.append('fewer than 800 fragments compared')
    return p
