"""C01 - every hunk line shown exactly once, in order, intact (unified view)."""
from .. import engine, gen, rows, runner, term
from ..engine import held, inconclusive, violated, crash_outcome

ID = 'C01'
LEVEL = 'exploration'
RULE = ('diff generated from a model (files x hunks x lines incl. marker-like contents, tabs, wide chars) x random '
        'unified-view option set; non-trivial = diff has >=1 hunk with >=1 changed line; distinct = '
        '(shape signature of the diff: section kinds, per-hunk line-kind string; option classes)')
ASSUMPTIONS = ['rows are recognised by reserved 24-bit colours given to every style option (no theme uses them)',
               'the terminal model (vlib/term.py) decodes SGR/OSC correctly']
CHUNK = 8


def plan(ctx):
    n = ctx.n(7000, 120000)
    items = [('gen', engine.stable_hash((ctx.seed, 'c01', i))) for i in range(n)]
    items += [('combined', engine.stable_hash((ctx.seed, 'c01c', i))) for i in range(ctx.n(2000, 30000))]
    items += [('real', engine.stable_hash((ctx.seed, 'c01r', i))) for i in range(ctx.n(400, 6000))]
    return items


def make_case(seed):
    rng = engine.item_rng(seed)
    fmt = rng.choice(['plain', 'plainr']) if rng.random() < 0.15 else 'git'
    maxlen = rng.choice([40, 40, 40, 120, 400])
    d = gen.gen_diff(rng, fmt=fmt, maxlen=maxlen, simple_paths=rng.random() < 0.5)
    opts, meta = gen.unified_options(rng)
    mll = meta['max_line_length']
    if mll and rng.random() < 0.6:
        # lines around and beyond the maximum line length (truncated with a visible mark, only beyond it)
        for s in d.sections:
            for h in s.hunks:
                new = []
                for k, t in h.lines:
                    if k in '+- ' and rng.random() < 0.3:
                        want = mll + rng.choice([-3, -2, -1, 0, 1, 2, 5, 40, 400])
                        filler = rng.choice(['w0rd ', 'x', '日本 ', 'ab\u0301c ', 'é-'])
                        t = (t.replace('\t', ' ') + ' ' + filler * 600)[:max(1, want)]
                    new.append((k, t))
                h.lines = new
    r2 = engine.item_rng(engine.stable_hash((seed, 'c01-extra')))
    if r2.random() < 0.06:
        # a removed first line that reads like the commit line of a submodule, without its '+' counterpart (a deleted
        # submodule, or a file that happens to start so): an ordinary hunk line
        for s in d.sections:
            for h in s.hunks:
                if h.lines and h.lines[0][0] == '-' and not (len(h.lines) > 1 and h.lines[1][0] == '+' and h.lines[1][1].startswith('Subproject commit ')):
                    h.lines[0] = ('-', r2.choice(['Subproject commit ' + 'a1' * 20, 'Subproject commit notahash', 'Subproject commit ' + 'b' * 40 + '-dirty']))
                    if 'subproject-like' not in meta['classes']:
                        meta['classes'] = list(meta['classes']) + ['subproject-like']
    if r2.random() < 0.06:
        # bytes that are not valid UTF-8 (written '\udcXX' in the model, shown as U+FFFD), in lines below any length limit
        for s in d.sections:
            for h in s.hunks:
                new = []
                for k, t in h.lines:
                    if k in '+- ' and r2.random() < 0.3 and (not mll or len(t.encode('utf-8')) + 8 < mll):
                        cut = r2.randrange(len(t) + 1)
                        t = t[:cut] + r2.choice(['\udcff', '\udc80', '\udcc3', '\udcff\udcfe']) + t[cut:]
                        if 'invalid-utf8' not in meta['classes']:
                            meta['classes'] = list(meta['classes']) + ['invalid-utf8']
                    new.append((k, t))
                h.lines = new
    if r2.random() < 0.02 and d.sections and d.sections[0].hunks:
        # lines of thousands of tokens (minified code), no length limit: a removed and an added line whose comparison would need
        # too large a table are not compared - and are still shown, each once
        nt = r2.choice([2200, 4200])
        m = ' '.join('w%d' % i for i in range(nt))
        p0 = ' '.join('v%d' % i for i in range(nt))
        p1 = ' '.join('w%d' % i for i in range(r2.choice([300, 900])))
        d.sections[0].hunks[0].lines = [('-', m), ('+', p0), ('+', p1), (' ', 'ctx after the long lines')]
        opts['--max-line-length'] = 0
        meta['max_line_length'] = 0
        meta['classes'] = list(meta['classes']) + ['many-tokens']
    mode = 'pty' if rng.random() < 0.15 else 'pipe'
    if mode == 'pty' and '--dark' not in opts and '--light' not in opts:
        opts['--dark'] = True
    size = (rng.choice([24, 50]), rng.choice([40, 80, 81, 120, 200]))
    return d, opts, meta, mode, size


def expected_text(kind, text, meta):
    if any('\udc80' <= ch <= '\udcff' for ch in text):
        text = ''.join('\ufffd' if '\udc80' <= ch <= '\udcff' else ch for ch in text)    # invalid byte: shown as U+FFFD
    t = rows.expand_tabs(text, meta['tabs'])
    if meta['markers']:
        t = kind + t
    return t


def shape_sig(d, meta):
    parts = []
    for s in d.sections:
        parts.append(s.kind + ':' + '|'.join(''.join(k for k, _ in h.lines) for h in s.hunks))
    return (d.fmt, tuple(parts), tuple(sorted(meta['classes'])))


def line_matches(info, kind, text, meta, counters):
    """Does this row show the given hunk line?  Returns (ok, why, exp, obs)."""
    exp = expected_text(kind, text, meta)
    if info.kind == 'blank' and exp.strip(' ') == '':
        return True, '', exp, ''
    if info.kind != 'code':
        return False, 'expected a %r line, found a %s row (line dropped, altered or moved past a header)' % (kind, info.kind), \
            (kind, text), repr(info)
    if info.code_kinds != {kind}:
        return False, 'row shows line kinds %s, expected %r' % (sorted(info.code_kinds), kind), (kind, text), repr(info)
    obs = info.code
    ok = obs.startswith(exp) and obs[len(exp):].strip(' ') == ''
    if not ok:
        # truncation beyond the maximum line length, with a visible mark
        mll = meta['max_line_length']
        raw_len = len((kind + text).encode('utf-8', 'surrogateescape'))
        o2 = obs.rstrip(' ')
        if mll and raw_len > mll and o2.endswith('→') and len(o2) - 1 < len(exp):
            shown = o2[:-1]
            if exp.startswith(shown):
                ok = True
            elif shown.endswith(' ') and exp.startswith(shown[:-1]) and \
                    term.char_width(exp[len(shown) - 1]) == 2:
                ok = True  # a double-width character cut in half is replaced by a blank
            if ok:
                counters['truncated_lines'] = counters.get('truncated_lines', 0) + 1
    if not ok:
        return False, 'text of a %r line differs' % kind, exp, obs
    return True, '', exp, obs


def check_output(d, meta, out, events=None):
    """Match the model's events against the classified rows (with backtracking where a blank row
    may be either a separator or an empty hunk line).  Returns (ok, what, expected, observed, counters)."""
    infos = rows.classify_all(out)
    events = events if events is not None else d.events()
    counters = {'rows': len(infos), 'code_rows': sum(1 for x in infos if x.kind == 'code'), 'lines_matched': 0,
                'file_rows': sum(1 for x in infos if x.kind == 'file'),
                'hunk_rows': sum(1 for x in infos if x.kind == 'hunk'), 'truncated_lines': 0}
    n = len(infos)
    ne = len(events)
    text_skippable = (not meta['file_rows']) or meta['hunk_rows'] == 'raw'
    best = [(-1, 'no match', None, None)]
    dead = set()

    def fail(ei, what, exp, obs):
        if ei > best[0][0]:
            best[0] = (ei, what, exp, obs)
        return False

    import sys
    sys.setrecursionlimit(10000)

    def go(ei, ri):
        if (ei, ri) in dead:
            return False
        ok = step(ei, ri)
        if not ok:
            dead.add((ei, ri))
        return ok

    def step(ei, ri):
        if ei == ne:
            for k in range(ri, n):
                if infos[k].kind == 'code':
                    return fail(ei, 'extra code row after the last expected line', 'no more code rows', repr(infos[k]))
            return True
        ev = events[ei]
        if ev[0] == 'file':
            if not meta['file_rows']:
                return go(ei + 1, ri)
            k = ri
            while k < n and infos[k].kind != 'file':
                if infos[k].kind == 'code':
                    return fail(ei, 'code row shown where the header of the next file section (section %d) is due' % ev[1],
                                'file header row', repr(infos[k]))
                k += 1
            if k >= n:
                return fail(ei, 'file header row for section %d missing' % ev[1], 'file row', 'end of output')
            return go(ei + 1, k + 1)
        if ev[0] == 'hunk':
            # separators / decorations, then at most ONE hunk header row, then the rest of its decoration
            k = ri
            while k < n and (infos[k].kind in ('blank', 'dec') or
                             (infos[k].kind == 'text' and text_skippable and not infos[k].text.lstrip().startswith('@@'))):
                k += 1
            a_end = k
            if k < n and (infos[k].kind == 'hunk' or (infos[k].kind == 'text' and infos[k].text.lstrip().startswith('@@'))):
                k += 1
                while k < n and infos[k].kind == 'dec':
                    k += 1
                return go(ei + 1, k)
            # no header row for this hunk: trailing blank rows may be empty hunk lines - greedy first, then give them back
            if go(ei + 1, k):
                return True
            while k > ri and infos[k - 1].kind == 'blank':
                k -= 1
                if go(ei + 1, k):
                    return True
            return False
        if ev[0] == 'line':
            _, kind, text, _o, _n = ev
            if ri >= n:
                return fail(ei, 'hunk line missing at end of output', (kind, text), 'end of output')
            ok, why, exp, obs = line_matches(infos[ri], kind, text, meta, counters)
            if not ok:
                return fail(ei, why, exp, obs)
            return go(ei + 1, ri + 1)
        if ev[0] == 'note':
            if ri >= n or infos[ri].text.rstrip() != ev[1]:
                return fail(ei, 'no-newline note not shown verbatim at its position', ev[1],
                            repr(infos[ri]) if ri < n else 'end of output')
            return go(ei + 1, ri + 1)
        raise AssertionError(ev)

    if go(0, 0):
        counters['lines_matched'] = sum(1 for e in events if e[0] == 'line')
        return True, '', None, None, counters
    _, what, exp, obs = best[0]
    return False, what, exp, obs, counters


def run_combined(seed):
    """Combined (merge) diffs, with and without a conflict region."""
    from .. import corpus
    rng = engine.item_rng(seed)
    conflict = rng.random() < 0.5
    nparents = 2 if conflict else rng.choice([2, 2, 3])
    nconf = rng.choice([1, 1, 2, 3])
    r3 = engine.item_rng(engine.stable_hash((seed, 'c01-cc-extra')))
    unterminated = conflict and r3.random() < 0.15
    note = (not conflict) and r3.random() < 0.15
    short_lines = engine.item_rng(engine.stable_hash((seed, 'c01-short'))).random() < 0.2
    lines, model, path = corpus.gen_combined(rng, conflict=conflict, nparents=nparents, nhunks=rng.choice([1, 1, 2, 3]), nconflicts=nconf, styles=('diff3', 'merge'),
                                              lead=rng.choice([None, None, None, 0]) if conflict else None, unterminated=unterminated, note=note,
                                              short_lines=short_lines)
    nsec = 1
    while rng.random() < 0.3 and nsec < 3:
        # a further file section (with its own conflict regions) in the same input
        l2, m2, _p2 = corpus.gen_combined(rng, conflict=conflict, nparents=nparents, nhunks=rng.choice([1, 2]), nconflicts=rng.choice([1, 2]), styles=('diff3', 'merge'),
                                           unterminated=conflict and r3.random() < 0.1)
        lines, model = lines + l2, model + m2
        nsec += 1
    opts = gen.tagged_styles()
    opts['--paging'] = 'never'
    opts['--syntax-theme'] = rng.choice(['none', 'GitHub'])
    T = gen.TAGS
    opts['--merge-conflict-ours-diff-header-style'] = T['mc_ours']
    opts['--merge-conflict-theirs-diff-header-style'] = T['mc_theirs']
    opts['--merge-conflict-ours-diff-header-decoration-style'] = (T['mc_ours_dec'] + ' ' + rng.choice(['box', 'ul', ''])).strip()
    opts['--merge-conflict-theirs-diff-header-decoration-style'] = (T['mc_theirs_dec'] + ' ' + rng.choice(['box', 'ul', ''])).strip()
    cls = ['combined', 'conflict' if conflict else 'no-conflict', 'parents%d' % nparents, 'sections%d' % nsec] + (['conflicts%d' % nconf] if conflict else []) + (['lines-shorter-than-the-marker-columns'] if short_lines else []) + \
        (['unterminated-region'] if unterminated else []) + (['no-newline-note-mid-hunk'] if note else [])
    tabs = 8
    if rng.random() < 0.4:
        opts['--line-numbers'] = True
        cls.append('ln')
    if rng.random() < 0.3:
        b = rng.choice([0, 1, 2, 32])
        opts['--line-buffer-size'] = b
        cls.append('buf%d' % b)
    if rng.random() < 0.3:
        opts['--max-line-distance'] = rng.choice(['0', '0.6', '1'])
    if rng.random() < 0.3:
        opts['--width'] = rng.choice([60, 100, 'variable'])
        cls.append('width')
    res = runner.run_delta(gen.to_args(opts), ('\n'.join(lines) + '\n').encode())
    c = crash_outcome(res, ID)
    if c is not None:
        return c
    if res.rc != 0:
        return inconclusive('exit %d' % res.rc)
    infos = [i for i in rows.classify_all(res.out)]
    # expected sequence of (kind, text)
    exp = []
    for m in model:
        if m[0] == 'line':
            _, prefix, text = m
            k = '-' if '-' in prefix else ('+' if '+' in prefix else ' ')
            exp.append((k, prefix + text))
        else:
            _, ours, anc, theirs = m
            exp.append(('ours-header', None))
            exp += [('-', t) for t in anc] + [('+', t) for t in ours]
            exp.append(('theirs-header', None))
            exp += [('-', t) for t in anc] + [('+', t) for t in theirs]
    counters = {'rows': len(infos), 'lines_matched': 0, 'conflict_regions': sum(1 for m in model if m[0] == 'conflict')}
    sets = {'option_classes': cls, 'section_kinds': ['combined'], 'mode': ['pipe'], 'format': ['combined']}
    seq = []
    seen_hunk = False
    for info in infos:
        tags = {gen.TAG_BY_RGB.get(c_.fg) for c_ in info.row.cells}
        if info.kind == 'hunk':
            seen_hunk = True
            while seq and seq[-1][0] == 'blank':
                seq.pop()      # the empty row that separates this hunk's header from the previous hunk
        elif info.kind == 'code':
            seq.append((list(info.code_kinds)[0] if len(info.code_kinds) == 1 else 'mixed', info.code))
        elif 'mc_ours' in tags:
            seq.append(('ours-header', None))
        elif 'mc_theirs' in tags:
            seq.append(('theirs-header', None))
        elif info.kind == 'blank' and seen_hunk:
            seq.append(('blank', ''))
    j = 0
    for (k, t) in exp:
        while j < len(seq) and seq[j][0] == 'blank' and not (k in '-+ ' and t is not None and t.strip() == ''):
            j += 1
        if j >= len(seq):
            return violated('c01:combined:line-missing', 'a line of a combined diff is missing from the output', (k, t), 'end of output',
                            run=res, counters=counters, sets=sets)
        gk, gt = seq[j]
        j += 1
        if t is None:
            if gk != k:
                return violated('c01:combined:conflict-structure', 'expected the %s of the conflict region' % k, k, (gk, gt), run=res, counters=counters, sets=sets)
            continue
        if gk == 'blank' and t.strip() == '':
            counters['lines_matched'] += 1
            continue
        if gk != k:
            return violated('c01:combined:kind', 'line of a combined diff shown as the wrong kind', (k, t), (gk, gt), run=res, counters=counters, sets=sets)
        e = rows.expand_tabs(t, tabs)
        if not (gt.startswith(e) and gt[len(e):].strip(' ') == ''):
            return violated('c01:combined:text', 'text of a combined-diff line differs', e, gt, run=res, counters=counters, sets=sets)
        counters['lines_matched'] += 1
    while j < len(seq):
        if seq[j][0] in '-+ ' and seq[j][0] != 'blank':
            return violated('c01:combined:extra-line', 'extra code row after the last expected line', None, seq[j], run=res, counters=counters, sets=sets)
        j += 1
    return held(sig=('combined', conflict, nparents, tuple(k for k, _ in exp), tuple(sorted(cls))), nontrivial=True, counters=counters, sets=sets,
                sample={'args': gen.to_args(opts)[-6:], 'input_head': lines[4:10], 'conflict': conflict})


def run_real(seed):
    """Authentic git output (git diff / show / log -p on randomly edited scratch repositories); expected lines are read
    from the plain diff using the hunk headers' counts."""
    from .. import gitrepo
    rng = engine.item_rng(seed)
    repo = gitrepo.Repo(rng)
    try:
        repo.seed_files()
        repo.random_edits()
        which = rng.choice(['diff', 'show', 'log'])
        gopts = rng.choice([[], ['-M'], ['-U0'], ['-U5']])
        if which == 'diff':
            repo.git('add', '-A', '-N')
            out = repo.git('diff', '--color=never', *gopts)
        else:
            repo.commit('second\n\nbody text')
            out = repo.git('show' if which == 'show' else 'log', '-p', '--color=never', *gopts) if which == 'log' else repo.git('show', '--color=never', *gopts)
    finally:
        repo.remove()
    if not out.strip():
        return inconclusive('empty git output')
    text = out.decode('utf-8', 'replace')
    in_lines = text.split('\n')[:-1]
    roles = gen.roles_from_unified(in_lines)
    opts, meta = gen.unified_options(rng, allow_raw_headers=False)
    for k in ('--max-line-length', '--diff-highlight', '--diff-so-fancy'):
        opts.pop(k, None)
    meta['max_line_length'] = 3000
    res = runner.run_delta(gen.to_args(opts), out)
    c = crash_outcome(res, ID)
    if c is not None:
        return c
    if res.rc != 0:
        return inconclusive('exit %d' % res.rc)
    sets = {'option_classes': meta['classes'], 'section_kinds': ['real-git-' + which], 'mode': ['pipe'], 'format': ['real']}
    events = []
    si = -1
    hi = -1
    for l, r in zip(in_lines, roles):
        if r == 'header' and l.startswith('diff '):
            si += 1
            hi = -1
            events.append(('file', si))
        elif r == 'hunkheader':
            hi += 1
            events.append(('hunk', si, hi))
        elif r == 'hunk':
            events.append(('line', l[:1] if l else ' ', l[1:], None, None))
        elif r == 'note':
            events.append(('note', l))
    # binary / mode-only sections: the header row still exists; fine for the matcher
    ok, what, e, o, counters = check_output(None, meta, res.out, events=events)
    if not ok:
        return violated('c01:real:' + what.split(' (')[0][:60], what, e, o, run=res, counters=counters, sets=sets)
    nlines = sum(1 for ev in events if ev[0] == 'line')
    return held(sig=('real', which, tuple(gopts), tuple(r for r in roles if r != 'hunk')[:8], hash(out) & 0xffff), nontrivial=nlines > 0,
                counters=counters, sets=sets, sample={'git': which, 'input_head': in_lines[:6]})


def run_item(item):
    kind0, seed = item
    if kind0 == 'combined':
        return run_combined(seed)
    if kind0 == 'real':
        return run_real(seed)
    d, opts, meta, mode, size = make_case(seed)
    data = d.text().encode('utf-8', 'surrogateescape')
    r3 = engine.item_rng(engine.stable_hash((seed, 'c01-crlf')))
    mll = meta['max_line_length']
    if d.fmt == 'git' and r3.random() < 0.1 and 'invalid-utf8' not in meta['classes'] and \
            (not mll or all(len(l.encode('utf-8', 'surrogateescape')) + 60 < mll for l in d.lines())):
        # the same diff of a file with CRLF line endings, coloured as git colours it when delta is its pager: the CR of an
        # added line sits between escape sequences (it is a white-space error for git), that of a removed line before the reset;
        # it is not part of the text of the line
        E = '\x1b'
        out = []
        for role, l in d.role_lines():
            if role == 'hunk' and l[:1] == '+':
                out.append(E + '[32m+' + E + '[m' + (E + '[32m' + l[1:] + E + '[m' if l[1:] else '') + E + '[41m\r' + E + '[m')
            elif role == 'hunk' and l[:1] == '-':
                out.append(E + '[31m' + l + '\r' + E + '[m')
            elif role == 'hunk' and l[:1] == ' ':
                out.append(l + '\r')
            elif role == 'hunkheader':
                k = l.find('@@', 2)
                out.append(E + '[36m' + l[:k + 2] + E + '[m' + l[k + 2:])
            elif role == 'header':
                out.append(E + '[1m' + l + E + '[m')
            else:
                out.append(l)
        data = ('\n'.join(out) + '\n').encode('utf-8', 'surrogateescape')
        meta['classes'] = list(meta['classes']) + ['git-coloured-crlf']
    if d.fmt == 'git' and r3.random() < 0.12:
        # git diff --submodule=log: a 'Submodule ...' section (no 'diff' line in front of it) follows the last file: the lines
        # of that file's last hunk are out before its header
        data += b'Submodule vendor/lib 1234567..89abcde:\n  > a commit message of the submodule\n'
        meta['classes'] = list(meta['classes']) + ['submodule-log-section-follows']
    traced = seed % 8 == 0
    res = runner.run_delta(gen.to_args(opts), data, mode=mode, pty_size=size, trace=traced)
    c = crash_outcome(res, ID)
    if c is not None:
        return c
    if res.rc != 0:
        return inconclusive('option set rejected or non-zero exit %d: %s' % (res.rc, res.err[:200]))
    ok, what, exp, obs, counters = check_output(d, meta, res.out)
    sets = {'option_classes': meta['classes'], 'section_kinds': [s.kind for s in d.sections], 'mode': [mode],
            'format': [d.fmt]}
    if traced:
        sets['state_transitions'] = engine.transitions(res.trace)
    if not ok:
        key = 'c01:' + what.split(' (')[0][:60]
        if isinstance(exp, (tuple, list)) and len(exp) == 2 and exp[0] in '-+ ' and not str(exp[1]).strip():
            # the matcher failed at an empty hunk line: empty lines, separators and header-less hunk headers all render as
            # empty rows, and the walk can take a wrong turn there. Decide on the lines that have text: they must all be
            # there, in order, with their kinds; then the remaining doubt is about empty rows only
            want = [(k, expected_text(k, t, meta)) for s_ in d.sections for h in s_.hunks for k, t in h.lines if k in '-+ ' and t.strip()]
            got = [(list(i.code_kinds)[0], i.code) for i in rows.classify_all(res.out) if i.kind == 'code' and len(i.code_kinds) == 1 and i.code.strip()]
            if len(want) == len(got) and all(a[0] == b[0] and b[1].rstrip(' ').startswith(a[1].rstrip(' ')[:len(b[1].rstrip(' ').rstrip('→'))] or '\x00')
                                             for a, b in zip(want, got)):
                return inconclusive('walk over empty rows ambiguous; every line that has text is present once, in order, with its kind', sets=sets)
        return violated(key, what, exp, obs, run=res, counters=counters, sets=sets)
    nontrivial = any(k in '-+' for s in d.sections for h in s.hunks for k, _ in h.lines)
    sample = {'args': gen.to_args(opts)[-8:], 'input_head': d.lines()[:8], 'rows': counters['rows'],
              'lines_matched': counters['lines_matched']}
    return held(sig=shape_sig(d, meta), nontrivial=nontrivial, counters=counters, sets=sets, sample=sample)


def floors(ctx, agg):
    p = []
    if agg.counters.get('truncated_lines', 0) < 500:
        p.append('fewer than 500 lines truncated at the maximum line length')
    if agg.counters.get('lines_matched', 0) < 1000:
        p.append('fewer than 1000 hunk lines matched')
    if len(agg.sets.get('section_kinds', ())) < 8:
        p.append('fewer than 8 section kinds exercised')
    need = {'HunkMinus>HunkPlus', 'HunkPlus>HunkZero', 'HunkPlus>HunkMinus', 'HunkMinus>HunkZero', 'HunkZero>HunkHeader', 'HunkPlus>DiffHeader',
            'HunkMinus>DiffHeader', 'HunkZero>DiffHeader', 'HunkPlus>HunkHeader', 'HunkMinus>HunkHeader', 'HunkPlus>End', 'HunkMinus>End',
            'DiffHeader>DiffHeader', 'DiffHeader>HunkHeader'}
    missing = need - set(agg.sets.get('state_transitions', ()))
    if missing:
        p.append('state-machine transitions not driven by the workload (hook trace): %s' % sorted(missing))
    return p
