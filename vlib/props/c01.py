"""C01 - every hunk line shown exactly once, in order, intact (unified view)."""
from .. import engine, gen, rows, runner, term
from ..engine import held, inconclusive, violated, crash_outcome

ID = 'C01'
LEVEL = 'exploration'
RULE = ('diff generated from a model (files x hunks x lines incl. marker-like contents, tabs, wide chars) x random '
        'unified-view option set; non-trivial = diff has >=1 hunk with >=1 changed line; distinct = '
        '(shape signature of the diff: section kinds, per-hunk line-kind string; option classes)')
ASSUMPTIONS = ['rows are recognised by reserved 24-bit colours given to every style option (no theme uses them)',
               'the terminal model (vlib/term.py) decodes SGR/OSC correctly']
CHUNK = 8


def plan(ctx):
    n = ctx.n(2500, 60000)
    return [('gen', engine.stable_hash((ctx.seed, 'c01', i))) for i in range(n)]


def make_case(seed):
    rng = engine.item_rng(seed)
    fmt = rng.choice(['plain', 'plainr']) if rng.random() < 0.15 else 'git'
    maxlen = rng.choice([40, 40, 40, 120, 400])
    d = gen.gen_diff(rng, fmt=fmt, maxlen=maxlen, simple_paths=rng.random() < 0.5)
    if fmt in ('plain', 'plainr'):
        for s in d.sections:
            for h in s.hunks:
                # the documented ambiguity of plain diff -u: '+++ ' content looks like a header
                h.lines = [(k, t if not (k == '+' and t.startswith('++ ')) else 'pp' + t[2:]) for k, t in h.lines]
    opts, meta = gen.unified_options(rng)
    mode = 'pty' if rng.random() < 0.15 else 'pipe'
    if mode == 'pty' and '--dark' not in opts and '--light' not in opts:
        opts['--dark'] = True
    size = (rng.choice([24, 50]), rng.choice([40, 80, 81, 120, 200]))
    return d, opts, meta, mode, size


def expected_text(kind, text, meta):
    t = rows.expand_tabs(text, meta['tabs'])
    if meta['markers']:
        t = kind + t
    return t


def shape_sig(d, meta):
    parts = []
    for s in d.sections:
        parts.append(s.kind + ':' + '|'.join(''.join(k for k, _ in h.lines) for h in s.hunks))
    return (d.fmt, tuple(parts), tuple(sorted(meta['classes'])))


def line_matches(info, kind, text, meta, counters):
    """Does this row show the given hunk line?  Returns (ok, why, exp, obs)."""
    exp = expected_text(kind, text, meta)
    if info.kind == 'blank' and exp.strip(' ') == '':
        return True, '', exp, ''
    if info.kind != 'code':
        return False, 'expected a %r line, found a %s row (line dropped, altered or moved past a header)' % (kind, info.kind), \
            (kind, text), repr(info)
    if info.code_kinds != {kind}:
        return False, 'row shows line kinds %s, expected %r' % (sorted(info.code_kinds), kind), (kind, text), repr(info)
    obs = info.code
    ok = obs.startswith(exp) and obs[len(exp):].strip(' ') == ''
    if not ok:
        # truncation beyond the maximum line length, with a visible mark
        mll = meta['max_line_length']
        raw_len = len((kind + text).encode('utf-8'))
        o2 = obs.rstrip(' ')
        if mll and raw_len > mll and o2.endswith('→') and len(o2) - 1 < len(exp):
            shown = o2[:-1]
            if exp.startswith(shown):
                ok = True
            elif shown.endswith(' ') and exp.startswith(shown[:-1]) and \
                    term.char_width(exp[len(shown) - 1]) == 2:
                ok = True  # a double-width character cut in half is replaced by a blank
            if ok:
                counters['truncated_lines'] = counters.get('truncated_lines', 0) + 1
    if not ok:
        return False, 'text of a %r line differs' % kind, exp, obs
    return True, '', exp, obs


def check_output(d, meta, out):
    """Match the model's events against the classified rows (with backtracking where a blank row
    may be either a separator or an empty hunk line).  Returns (ok, what, expected, observed, counters)."""
    infos = rows.classify_all(out)
    events = d.events()
    counters = {'rows': len(infos), 'code_rows': sum(1 for x in infos if x.kind == 'code'), 'lines_matched': 0,
                'file_rows': sum(1 for x in infos if x.kind == 'file'),
                'hunk_rows': sum(1 for x in infos if x.kind == 'hunk'), 'truncated_lines': 0}
    n = len(infos)
    ne = len(events)
    text_skippable = (not meta['file_rows']) or meta['hunk_rows'] == 'raw'
    best = [(-1, 'no match', None, None)]
    dead = set()

    def fail(ei, what, exp, obs):
        if ei > best[0][0]:
            best[0] = (ei, what, exp, obs)
        return False

    import sys
    sys.setrecursionlimit(10000)

    def go(ei, ri):
        if (ei, ri) in dead:
            return False
        ok = step(ei, ri)
        if not ok:
            dead.add((ei, ri))
        return ok

    def step(ei, ri):
        if ei == ne:
            for k in range(ri, n):
                if infos[k].kind == 'code':
                    return fail(ei, 'extra code row after the last expected line', 'no more code rows', repr(infos[k]))
            return True
        ev = events[ei]
        if ev[0] == 'file':
            if not meta['file_rows']:
                return go(ei + 1, ri)
            k = ri
            while k < n and infos[k].kind != 'file':
                if infos[k].kind == 'code':
                    return fail(ei, 'code row shown where the header of the next file section (section %d) is due' % ev[1],
                                'file header row', repr(infos[k]))
                k += 1
            if k >= n:
                return fail(ei, 'file header row for section %d missing' % ev[1], 'file row', 'end of output')
            return go(ei + 1, k + 1)
        if ev[0] == 'hunk':
            k = ri
            while k < n and (infos[k].kind in ('blank', 'dec', 'hunk') or
                             (infos[k].kind == 'text' and (text_skippable or infos[k].text.lstrip().startswith('@@')))):
                k += 1
            # greedy first; give back trailing blank rows (they may be empty hunk lines)
            if go(ei + 1, k):
                return True
            while k > ri and infos[k - 1].kind == 'blank':
                k -= 1
                if go(ei + 1, k):
                    return True
            return False
        if ev[0] == 'line':
            _, kind, text, _o, _n = ev
            if ri >= n:
                return fail(ei, 'hunk line missing at end of output', (kind, text), 'end of output')
            ok, why, exp, obs = line_matches(infos[ri], kind, text, meta, counters)
            if not ok:
                return fail(ei, why, exp, obs)
            return go(ei + 1, ri + 1)
        if ev[0] == 'note':
            if ri >= n or infos[ri].text.rstrip() != ev[1]:
                return fail(ei, 'no-newline note not shown verbatim at its position', ev[1],
                            repr(infos[ri]) if ri < n else 'end of output')
            return go(ei + 1, ri + 1)
        raise AssertionError(ev)

    if go(0, 0):
        counters['lines_matched'] = sum(1 for e in events if e[0] == 'line')
        return True, '', None, None, counters
    _, what, exp, obs = best[0]
    return False, what, exp, obs, counters


def run_item(item):
    _, seed = item
    d, opts, meta, mode, size = make_case(seed)
    data = d.text().encode('utf-8')
    res = runner.run_delta(gen.to_args(opts), data, mode=mode, pty_size=size)
    c = crash_outcome(res, ID)
    if c is not None:
        return c
    if res.rc != 0:
        return inconclusive('option set rejected or non-zero exit %d: %s' % (res.rc, res.err[:200]))
    ok, what, exp, obs, counters = check_output(d, meta, res.out)
    sets = {'option_classes': meta['classes'], 'section_kinds': [s.kind for s in d.sections], 'mode': [mode],
            'format': [d.fmt]}
    if not ok:
        key = 'c01:' + what.split(' (')[0][:60]
        return violated(key, what, exp, obs, run=res, counters=counters, sets=sets)
    nontrivial = any(k in '-+' for s in d.sections for h in s.hunks for k, _ in h.lines)
    sample = {'args': gen.to_args(opts)[-8:], 'input_head': d.lines()[:8], 'rows': counters['rows'],
              'lines_matched': counters['lines_matched']}
    return held(sig=shape_sig(d, meta), nontrivial=nontrivial, counters=counters, sets=sets, sample=sample)


def floors(ctx, agg):
    p = []
    if agg.counters.get('lines_matched', 0) < 1000:
        p.append('fewer than 1000 hunk lines matched')
    if len(agg.sets.get('section_kinds', ())) < 8:
        p.append('fewer than 8 section kinds exercised')
    return p
