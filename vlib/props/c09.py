"""C09 - output lines are self-contained, well-formed terminal text."""
import re
from .. import corpus, engine, gen, runner, term, workload
from ..engine import held, inconclusive, violated, crash_outcome

ID = 'C09'
LEVEL = 'exploration'
RULE = ('mixed workload (diffs in unified and side-by-side view with wrapping/truncation forced, logs, grep, blame; '
        'plain and git-coloured input; hyperlinks on/off; pipe and pty) - every output row checked by the terminal '
        'model; distinct = (input kind, view, option classes, coloured?, hyperlinks?, mode); non-trivial = output has '
        '>= 3 rows carrying escape sequences')
ASSUMPTIONS = ['inputs carry no escape sequences, or per-line balanced SGR sequences in the layout git emits']
CHUNK = 8


def plan(ctx):
    n = ctx.n(9000, 150000)
    return [('case', engine.stable_hash((ctx.seed, 'c09', i))) for i in range(n)]


def check_rows(rows_, input_text=None):
    """Returns (problem or None, stats)."""
    n_seq = 0
    for i, r in enumerate(rows_):
        n_seq += r.sgr_seqs
        if input_text is not None:
            # delta itself writes SGR, erase-in-line and OSC 8 only: any other control sequence in its output must have
            # come from the input as it stands (a sequence cut in half often still reads as some well-formed CSI)
            for q in r.other_seqs:
                if q not in input_text:
                    return ('foreign-sequence', 'row %d holds a control sequence %r that is neither one delta writes nor present in the input' % (i, q)), n_seq
        if r.malformed:
            return ('malformed', 'row %d: %s' % (i, r.malformed[0])), n_seq
        if not r.end_sgr_default:
            return ('sgr-leak', 'row %d ends with a non-default rendition: %r' % (i, r.text()[:80])), n_seq
        if r.end_link is not None:
            return ('link-open', 'row %d ends with hyperlink still open: %r' % (i, r.end_link[:80])), n_seq
    return None, n_seq


E = '\x1b'


def balanced_escapes(rng, text):
    """Wrap parts of a line in balanced SGR and OSC 8 sequences (as a tool upstream of delta may emit them)."""
    if len(text) < 4:
        return text
    a = rng.randrange(0, len(text) - 2)
    b = rng.randrange(a + 1, len(text))
    r = rng.random()
    if r < 0.4:
        return text[:a] + E + ']8;;' + rng.choice(['https://example.com/x', 'https://example.com/c/abcdef1234567', 'file:///tmp/deadbeef99/f']) + rng.choice([E + '\\', '\x07']) + text[a:b] + E + ']8;;' + rng.choice([E + '\\', '\x07']) + text[b:]
    if r < 0.7:
        return text[:a] + E + '[' + rng.choice(['31', '1;32', '38;5;208', '4']) + 'm' + E + ']8;;file:///tmp/f' + E + '\\' + text[a:b] + E + ']8;;' + E + '\\' + E + '[m' + text[b:]
    return text[:a] + E + '[' + rng.choice(['33', '7', '38;2;1;2;3']) + 'm' + text[a:b] + E + '[0m' + text[b:]


def run_item(item):
    _, seed = item
    rng = engine.item_rng(seed)
    case = workload.any_case(rng)
    opts = dict(case['opts'])
    lines = case['lines']
    colored = False
    if rng.random() < 0.15:
        # input that carries its own balanced escape sequences, long lines, small max-line-length
        lines = []
        for _ in range(rng.randint(2, 8)):
            t = ' '.join(gen.rand_text(rng, 40, allow_empty=False, tabs_ok=False) for _ in range(rng.randint(1, 4)))
            l = balanced_escapes(rng, 'x' + t)
            if rng.random() < 0.2:
                l = l + E + '[36m tail\r' + E + '[m'       # (CR before the closing sequence, as for a CRLF file)
            if rng.random() < 0.25:
                k = rng.randrange(len(l) + 1)
                if E not in l[max(0, k - 12):k + 1] or l[:k].endswith(('m', '\\', '\x07')):
                    l = l[:k] + '\udcff' + l[k:]             # a byte that is not valid UTF-8 (between two sequences, not inside one)
            lines.append(l)
        case = dict(case)
        case['kind'] = 'text-with-escapes'
        case['view'] = 'passthrough'
        case['meta'] = {'classes': ['escapes-in-input']}
        opts = {'--paging': 'never', '--max-line-length': rng.choice([10, 20, 40, 80])}
    if case['view'] == 'sbs' and rng.random() < 0.25:
        opts['--width'] = rng.choice([8, 10, 12, 16, 20, 25, 31])
    if case['kind'] in ('diff', 'log') and rng.random() < 0.3:
        lines = corpus.git_colorize(lines, rng.choice(['default', 'ws']))
        colored = True
        if rng.random() < 0.35:
            # a file with CRLF line endings: git puts the closing sequences after the CR (ESC[31m-old CR ESC[m)
            lines = [(l[:-3] + '\r' + l[-3:]) if l.endswith(E + '[m') else l + '\r' for l in lines]
            case = dict(case)
            case['meta'] = dict(case['meta'])
            case['meta']['classes'] = list(case['meta']['classes']) + ['crlf-colored']
            if rng.random() < 0.4:
                # git log --graph -p: every line behind a graph prefix is passed through as it is
                lines = ['| ' + l for l in lines]
                case['meta']['classes'].append('graph-prefix')
            if rng.random() < 0.3:
                opts['--hunk-header-style'] = 'raw'
                opts['--hunk-header-decoration-style'] = 'none'
    env9 = None
    if case['kind'] == 'log' and 'diff' in case and rng.random() < 0.3:
        # git log --stat -p as git sends it to its pager from a subdirectory: the graph of the diff-stat lines coloured,
        # GIT_PREFIX set; with --relative-paths delta rewrites the paths of those lines
        stat = corpus.diffstat_lines(rng, [s_.new_path for s_ in case['diff'].sections])
        if colored or rng.random() < 0.6:
            stat = [re.sub(r'(\+*)(-*)$', lambda m_: (E + '[32m' + m_.group(1) + E + '[m' if m_.group(1) else '') + (E + '[31m' + m_.group(2) + E + '[m' if m_.group(2) else ''), l)
                    if ' | ' in l else l for l in stat]
        k_ = next((i for i, l in enumerate(lines) if l.startswith(('diff --git', E + '[1mdiff --git'))), len(lines))
        lines = lines[:k_] + stat + lines[k_:]
        if rng.random() < 0.7:
            opts['--relative-paths'] = True
            env9 = {'GIT_PREFIX': rng.choice(['src/', 'a/b/', 'docs/'])}
        case = dict(case)
        case['meta'] = dict(case['meta'])
        case['meta']['classes'] = list(case['meta']['classes']) + ['diff-stat' + ('+relative-paths' if env9 else '')]
    hyper = rng.random() < 0.4
    repo_cwd = None
    if hyper:
        opts['--hyperlinks'] = True
        if rng.random() < 0.5:
            opts['--hyperlinks-file-link-format'] = rng.choice(['file://{path}', 'vscode://file/{path}:{line}', 'x://{host}/{path}#{line}'])
        if rng.random() < 0.5:
            opts['--hyperlinks-commit-link-format'] = 'https://example.com/c/{commit}'
        elif rng.random() < 0.6:
            # no format given: delta derives one from the "origin" remote of the repository it runs in
            from . import c19
            repo_cwd = c19.make_repo(rng.choice(c19.REMOTES)[0])
    if case['view'] == 'unified' and rng.random() < 0.3:
        # line numbers with a format of their own (width, precision), next to hyperlinks if those are on
        opts['--line-numbers'] = True
        opts['--line-numbers-left-format'], opts['--line-numbers-right-format'] = rng.choice([('{nm:^4.4}⋮', '{np:^4.4}│'), ('{nm:>3.2}┊', '{np:>6.1}┊'),
                                                                                              ('{nm:<5}', '{np:^8.3}|'), ('', '{np:.2}:')])
    if case['view'] in ('unified', 'sbs') and rng.random() < 0.25:
        opts['--max-line-length'] = rng.choice([30, 60, 150])
    if case['view'] == 'sbs' and rng.random() < 0.3:
        opts['--wrap-max-lines'] = rng.choice([0, 1, 2])
    mode = 'pty' if rng.random() < 0.25 else 'pipe'
    size = (24, rng.choice([40, 77, 80, 120]))
    if mode == 'pty' and '--dark' not in opts and '--light' not in opts:
        opts['--dark'] = True
    data = ('\n'.join(lines) + '\n').encode('utf-8', 'surrogateescape')
    res = runner.run_delta(gen.to_args(opts), data, mode=mode, pty_size=size, cwd=repo_cwd, env=env9, **workload.parent_kw(case))
    if repo_cwd is not None:
        import shutil
        shutil.rmtree(repo_cwd, ignore_errors=True)
        case = dict(case)
        case['meta'] = dict(case['meta'])
        case['meta']['classes'] = list(case['meta']['classes']) + ['remote-derived-commit-links']
    c = crash_outcome(res, ID)
    if c is not None:
        return c
    if res.rc != 0:
        return inconclusive('exit %d: %s' % (res.rc, res.err[:120]))
    rows_ = term.decode(res.out)
    problem, nseq = check_rows(rows_, data.decode('utf-8', 'replace'))
    counters = {'rows_checked': len(rows_), 'sgr_sequences': nseq,
                'links_seen': sum(len(r.links) for r in rows_)}
    sets = {'kinds': [case['kind']], 'views': [case['view']], 'option_classes': case['meta']['classes'], 'mode': [mode]}
    if problem:
        return violated('c09:%s:%s' % (problem[0], case['view']), problem[1], run=res, counters=counters, sets=sets)
    sig = (case['kind'], case['view'], tuple(sorted(case['meta']['classes'])), colored, hyper, mode)
    return held(sig=sig, nontrivial=sum(1 for r in rows_ if r.sgr_seqs) >= 3, counters=counters, sets=sets,
                sample={'kind': case['kind'], 'view': case['view'], 'args_tail': gen.to_args(opts)[-8:], 'rows': len(rows_),
                        'first_rows': [r.text()[:60] for r in rows_[:4]]})


def floors(ctx, agg):
    p = []
    if agg.counters.get('rows_checked', 0) < 20000:
        p.append('fewer than 20000 rows checked')
    if agg.counters.get('links_seen', 0) < 200:
        p.append('fewer than 200 hyperlinks observed')
    return p
