"""C12 - style strings mean what git's colour language says they mean."""
import itertools
import re

from .. import engine, gen, runner, term
from ..engine import held, inconclusive, violated
from .. import crash as crashmod

ID = 'C12'
LEVEL = 'exploration'
RULE = ('style strings of the grammar: exhaustively all strings of <= 3 tokens over a token set covering every class (named, '
        'bright-named in both spellings, normal, auto, syntax, numbers, #rrggbb, CSS names, every attribute, omit, raw) in every '
        'order with random letter case and quoting, all 256 palette numbers in foreground and background position, random '
        '#rrggbb; for 11 style-typed options, each with a tiny input that makes delta paint a known text with it; 24-bit and '
        '256-colour mode; the painted cells are compared with an independent reference parser; the style printed by '
        '--show-config is fed back and must render identically; distinct = (option, normalised style string, colour mode); '
        'non-trivial = the string sets at least one colour or attribute')
ASSUMPTIONS = ['"auto" is resolved against the rendition observed for the option\'s default (delta vs delta) - the documented default '
               'colours depend on the light/dark mode', 'omit/raw are only checked for the options where they are defined (header and hunk-line styles)']
CHUNK = 16

ATTRS = ['bold', 'dim', 'italic', 'ul', 'blink', 'reverse', 'hidden', 'strike']
ANSI = {'black': 0, 'red': 1, 'green': 2, 'yellow': 3, 'blue': 4, 'magenta': 5, 'purple': 5, 'cyan': 6, 'white': 7}
for _k, _v in list(ANSI.items()):
    ANSI['bright' + _k] = _v + 8
    ANSI['bright-' + _k] = _v + 8
CSS = {'orange': (255, 165, 0), 'hotpink': (255, 105, 180), 'gold': (255, 215, 0), 'navy': (0, 0, 128), 'teal': (0, 128, 128),
       'tomato': (255, 99, 71), 'salmon': (250, 128, 114), 'indigo': (75, 0, 130), 'olive': (128, 128, 0), 'coral': (255, 127, 80),
       'crimson': (220, 20, 60), 'khaki': (240, 230, 140), 'orchid': (218, 112, 214), 'plum': (221, 160, 221),
       'sienna': (160, 82, 45), 'skyblue': (135, 206, 235), 'violet': (238, 130, 238), 'lightgray': (211, 211, 211)}

TOKENS_ALL = ['red', 'brightblue', 'bright-green', 'purple', 'magenta', 'normal', 'auto', 'syntax', '0', '7', '8', '15', '16', '231', '255',
          '#102030', '#ffeedd', 'orange', 'teal', 'bold', 'dim', 'italic', 'ul', 'underline', 'blink', 'reverse', 'hidden', 'strike',
          'omit', 'raw', 'notacolor', '256', '#12345']
TOKENS = TOKENS_ALL


class Ref(object):
    """Independent reference parser of the style language."""

    def __init__(self, s):
        self.valid = True
        self.fg = ('none',)
        self.bg = ('none',)
        self.attrs = set()
        self.omit = False
        self.raw = False
        self.syntax = False
        seen_fg = seen_bg = False
        for w in s.lower().split():
            w = w.strip('"\'')
            if w in ('ul', 'underline'):
                self.attrs.add('ul')
            elif w in ATTRS:
                self.attrs.add(w)
            elif w == 'omit':
                self.omit = True
            elif w == 'raw':
                self.raw = True
            elif w in ('line-number', 'file', 'omit-code-fragment'):
                pass
            elif not seen_fg:
                seen_fg = True
                if w == 'syntax':
                    self.syntax = True
                    self.fg = ('syntax',)
                elif w == 'auto':
                    self.fg = ('auto',)
                else:
                    c = self.color(w)
                    if c is None:
                        self.valid = False
                    else:
                        self.fg = c
            elif not seen_bg:
                seen_bg = True
                if w == 'syntax':
                    self.valid = False
                elif w == 'auto':
                    self.bg = ('auto',)
                else:
                    c = self.color(w)
                    if c is None:
                        self.valid = False
                    else:
                        self.bg = c
            else:
                self.valid = False

    @staticmethod
    def color(w):
        if w == 'normal':
            return ('none',)
        if w.startswith('#'):
            if re.fullmatch(r'#[0-9a-f]{6}', w):
                return ('rgb', (int(w[1:3], 16), int(w[3:5], 16), int(w[5:7], 16)))
            return None
        if re.fullmatch(r'\d+', w):
            n = int(w)
            return ('idx', n) if n <= 255 else None
        if w in ANSI:
            return ('idx', ANSI[w])
        if w in CSS:
            return ('rgb', CSS[w])
        return None


def palette_rgb(n):
    if n < 16:
        base = [(0, 0, 0), (128, 0, 0), (0, 128, 0), (128, 128, 0), (0, 0, 128), (128, 0, 128), (0, 128, 128), (192, 192, 192),
                (128, 128, 128), (255, 0, 0), (0, 255, 0), (255, 255, 0), (0, 0, 255), (255, 0, 255), (0, 255, 255), (255, 255, 255)]
        return base[n]
    if n < 232:
        n -= 16
        lv = [0, 95, 135, 175, 215, 255]
        return (lv[n // 36], lv[(n // 6) % 6], lv[n % 6])
    g = 8 + 10 * (n - 232)
    return (g, g, g)


def dist(a, b):
    return sum((x - y) ** 2 for x, y in zip(a, b)) ** 0.5


# option -> probe
def probe_input(opt):
    if opt == 'grep-match-word-style':
        return RG_JSON_PROBE.encode(), ['rg', '--json', 'WORD']
    if opt.startswith('blame-'):
        return (b'abcd1234 (Ann 2020-01-01 00:00:00 +0000 1) PROBECODE here\nabcd1234 (Ann 2020-01-01 00:00:00 +0000 2) second\n',
                ['git', 'blame', 'probefile.txt'])
    if opt.startswith('merge-conflict-'):
        lines = ['diff --cc probefile.rs', 'index 1111111,2222222..0000000', '--- a/probefile.rs', '+++ b/probefile.rs',
                 '@@@ -1,3 -1,3 +1,9 @@@', '  ctx', '++<<<<<<< OURSIDE', ' +ours', '++||||||| BASESIDE', '++anc', '++=======', '+ theirs',
                 '++>>>>>>> THEIRSIDE', '  ctx2']
        return ('\n'.join(lines) + '\n').encode(), runner.NEUTRAL_PARENT
    if opt.startswith('grep-'):
        return b'probefile.rs:77:PROBETEXT here\nprobefile.rs-78-PROBECTX there\n', ['git', 'grep', '-n', '-C1', 'x']
    lines = ['commit abcdefabcdefabcdefabcdefabcdefabcdefabcd', 'Author: A <a@b>', '', '    msg', '',
             'diff --git a/probefile.rs b/probefile.rs', 'index 1111111..2222222 100644', '--- a/probefile.rs', '+++ b/probefile.rs',
             '@@ -77,3 +77,3 @@ PROBEFRAG()', ' PROBEZERO ctx', '-PROBEMINUS gone', ' MIDDLE ctx', '+PROBEPLUS new', ' SEP ctx',
             '-PAIRED EMPHOLD tail of the line', '+PAIRED EMPHNEW tail of the line', ' SEP2 ctx', '+PROBEWS   ']
    return ('\n'.join(lines) + '\n').encode(), runner.NEUTRAL_PARENT


PROBES = {
    'minus-style': ('PROBEMINUS gone', []),
    'plus-style': ('PROBEPLUS new', []),
    'zero-style': ('PROBEZERO ctx', []),
    'file-style': ('probefile.rs', []),
    'commit-style': ('commit abcdefabcdefabcdefabcdefabcdefabcdefabcd', []),
    'hunk-header-line-number-style': ('77', ['--hunk-header-style', 'line-number']),
    'hunk-header-file-style': ('probefile.rs', ['--hunk-header-style', 'file', '--file-style', 'omit']),
    'line-numbers-minus-style': ('78', ['--line-numbers', '--line-numbers-left-format', '<{nm}>', '--line-numbers-right-format', '']),
    'line-numbers-zero-style': ('79', ['--line-numbers', '--line-numbers-left-format', '<{nm}>', '--line-numbers-right-format', '']),
    'line-numbers-plus-style': ('79', ['--line-numbers', '--line-numbers-left-format', '', '--line-numbers-right-format', '<{np}>']),
    'line-numbers-left-style': ('«', ['--line-numbers', '--line-numbers-left-format', '«{nm}»', '--line-numbers-right-format', '']),
    'line-numbers-right-style': ('»', ['--line-numbers', '--line-numbers-left-format', '', '--line-numbers-right-format', '«{np}»']),
    'hunk-header-style': ('PROBEFRAG()', ['--hunk-header-decoration-style', 'none']),
    'minus-emph-style': ('EMPHOLD', []),
    'plus-emph-style': ('EMPHNEW', []),
    'minus-non-emph-style': ('PAIRED ', ['--minus-emph-style', 'bold 17 52']),
    'plus-non-emph-style': ('tail of the line@@EMPHNEW', ['--plus-emph-style', 'bold 17 22']),
    'grep-match-line-style': ('PROBETEXT here', []),
    'grep-context-line-style': ('PROBECTX there', []),
    'grep-file-style': ('probefile.rs', []),
    'grep-line-number-style': ('77', []),
    # options probed with plain colour/attribute strings only (SIMPLE_ONLY)
    'whitespace-error-style': ('   @@PROBEWS', []),
    'blame-code-style': ('PROBECODE here', []),
    'blame-separator-style': ('│', []),
    'grep-match-word-style': ('WORD', []),
    'merge-conflict-ours-diff-header-style': ('OURSIDE', ['--merge-conflict-ours-diff-header-decoration-style', 'none']),
    'merge-conflict-theirs-diff-header-style': ('THEIRSIDE', ['--merge-conflict-theirs-diff-header-decoration-style', 'none']),
}
SIMPLE_ONLY = {'whitespace-error-style', 'blame-code-style', 'blame-separator-style', 'grep-match-word-style',
               'merge-conflict-ours-diff-header-style', 'merge-conflict-theirs-diff-header-style'}
RG_JSON_PROBE = ('{"type":"begin","data":{"path":{"text":"probefile.rs"}}}\n'
                 '{"type":"match","data":{"path":{"text":"probefile.rs"},"lines":{"text":"PROBETEXT WORD here\\n"},"line_number":77,'
                 '"absolute_offset":0,"submatches":[{"match":{"text":"WORD"},"start":10,"end":14}]}}\n')
HEADER_OPTS = {'file-style', 'commit-style', 'hunk-header-file-style', 'hunk-header-line-number-style', 'hunk-header-style',
               'merge-conflict-ours-diff-header-style', 'merge-conflict-theirs-diff-header-style'}
AUTO_DEFINED = {'minus-style', 'plus-style', 'zero-style'}
RAW_OMIT_DEFINED = {'minus-style': 'raw', 'plus-style': 'raw', 'zero-style': 'raw', 'file-style': 'both', 'commit-style': 'both'}
IN_SHOW_CONFIG = {'minus-style', 'plus-style', 'zero-style', 'file-style', 'commit-style', 'grep-file-style', 'grep-line-number-style', 'hunk-header-style',
                  'minus-emph-style', 'plus-emph-style', 'minus-non-emph-style', 'plus-non-emph-style', 'line-numbers-minus-style',
                  'line-numbers-plus-style', 'line-numbers-zero-style', 'line-numbers-left-style', 'line-numbers-right-style',
                  'grep-match-line-style', 'grep-context-line-style', 'hunk-header-file-style', 'hunk-header-line-number-style'}


def find_cells(out, text):
    """Cells of the first occurrence of `text` in the output rows ("text@@marker": in the first row that holds marker)."""
    marker = None
    if '@@' in text:
        text, marker = text.split('@@')
    for r in term.decode(out):
        t = r.text()
        if marker is not None and marker not in t:
            continue
        k = t.find(text)
        if k < 0:
            continue
        pos = 0
        cells = []
        for c in r.cells:
            if k <= pos < k + len(text):
                cells.append(c)
            pos += len(c.ch)
        return cells
    return None


def run_probe(opt, style, true_color, extra=None, light=False, theme='none'):
    data, parent = probe_input(opt)
    _, add = PROBES[opt]
    args = ['--paging', 'never', '--no-gitconfig', '--syntax-theme', theme, '--true-color', 'always' if true_color else 'never', '--light' if light else '--dark']
    args += add
    if style is not None:
        args += ['--' + opt + '=' + style]
    if extra:
        args += extra
    return runner.run_delta(args, data, parent_argv=parent), args


_DEFAULT = {}


def default_style(opt, true_color):
    key = (opt, true_color)
    if key not in _DEFAULT:
        r, _ = run_probe(opt, None, true_color)
        cells = find_cells(r.out, PROBES[opt][0])
        if cells:
            c = cells[0]
            _DEFAULT[key] = (c.fg, c.bg, c.attrs, False)
        else:
            _DEFAULT[key] = (None, None, frozenset(), True)     # element not painted by default (raw commit line is)
    return _DEFAULT[key]


def gen_strings(ctx):
    """Deterministic enumeration + random ones.  Returns list of style strings."""
    out = []
    for n in (1, 2, 3):
        for combo in itertools.product(TOKENS, repeat=n):
            out.append(' '.join(combo))
    return out


def plan(ctx):
    allstr = gen_strings(ctx)
    rng = ctx.rng('c12')
    opts = sorted(PROBES)
    items = []
    if ctx.tier == 'quick':
        rng.shuffle(allstr)
        for i, s in enumerate(allstr[:ctx.n(4500, 0)]):
            items.append(('str', s, opts[i % len(opts)], i % 5 != 0, engine.stable_hash((ctx.seed, i))))
        for n in range(256):
            items.append(('str', str(n), rng.choice(opts), True, n))
            items.append(('str', 'normal %d' % n, rng.choice(['minus-style', 'plus-style', 'zero-style', 'file-style']), True, n))
    else:
        k = 0
        for s in allstr:
            for opt in opts if len(s.split()) < 3 else [opts[k % len(opts)]]:
                items.append(('str', s, opt, k % 5 != 0, k))
                k += 1
        for n in range(256):
            for opt in opts:
                items.append(('str', str(n), opt, True, n))
            for opt in ['minus-style', 'plus-style', 'zero-style', 'file-style']:
                items.append(('str', 'normal %d' % n, opt, n % 2 == 0, n))
    for i in range(ctx.n(600, 20000)):
        items.append(('rand', None, opts[i % len(opts)], i % 3 != 0, engine.stable_hash((ctx.seed, 'c12r', i))))
    # a style that does not say 'syntax', given alone on the command line, with a syntax theme active, in both views: the text
    # carries what the string says (side-by-side view changes the *defaults* of the removed-line styles, not what the user gives)
    for opt in ('minus-style', 'minus-emph-style', 'minus-non-emph-style', 'plus-style', 'plus-emph-style', 'zero-style'):
        for st in ('normal 124', 'normal "#901011"', '231 52', 'bold 17 229', 'normal', 'italic normal 28', 'NORMAL 124'):
            for sbs_ in (False, True):
                items.append(('themed', st, opt, sbs_, 0))
    # the styles delta itself chooses (nothing given): light and dark mode x both colour modes.  What --show-config reports for
    # them, supplied again, must give the same rendering - and a default is a colour of the mode's own kind
    for opt in opts:
        if opt in IN_SHOW_CONFIG:
            for light in (False, True):
                for tc in (False, True):
                    items.append(('default', 'light' if light else 'dark', opt, tc, 0))
    return items


def EXHAUSTIVE(ctx):
    return ctx.tier == 'thorough'


EXHAUSTIVE_SCOPE = 'all strings of <= 3 tokens over the %d-token set (every string of <= 2 tokens for each of the %d probed options), and all 256 palette numbers in both positions' % (len(TOKENS), len(PROBES))


def decorate_case(rng, s):
    """Random letter case and quoting (the language is case-insensitive; quotes around a word are allowed)."""
    out = []
    for w in s.split():
        r = rng.random()
        if r < 0.2:
            w = w.upper()
        elif r < 0.3:
            w = w.capitalize()
        if rng.random() < 0.1:
            w = '"%s"' % w
        out.append(w)
    return ' '.join(out)


def run_default_item(opt, light, true_color):
    sets = {'options': [opt], 'color_mode': ['24bit' if true_color else '256'], 'defaults_of_mode': ['light' if light else 'dark']}
    res, _ = run_probe(opt, None, true_color, light=light)
    c = crashmod.classify(res)
    if c is not None:
        return violated('c12:crash:' + c['signature'], c['detail'], run=res, sets=sets)
    if not true_color:
        for r in term.decode(res.out.decode('utf-8', 'replace')):
            for cl in r.cells:
                for col in (cl.fg, cl.bg):
                    if col and col[0] == 'rgb':
                        return violated('c12:default-24bit-in-256-mode:%s' % opt, 'with --true-color never and no style given, the %s rendering uses a 24-bit colour' % ('light' if light else 'dark'),
                                        'palette colours only', repr(col), run=res, sets=sets)
    sc, _ = run_probe(opt, None, true_color, extra=['--show-config'], light=light)
    m = re.search(r'^\s+%s\s+= (.*)$' % re.escape(opt), term.strip_escapes(sc.out.decode('utf-8', 'replace')), re.M)
    if not m:
        return inconclusive('option not in --show-config', sets=sets)
    back = m.group(1).strip()
    r2, _ = run_probe(opt, back, true_color, light=light)
    if r2.rc != 0 or r2.out != res.out:
        return violated('c12:show-config-round-trip-default:%s' % opt, 'the default style reported by --show-config (%r, %s mode) does not reproduce the default rendering when supplied'
                        % (back, 'light' if light else 'dark'), 'identical rendering', 'rc %d, %s' % (r2.rc, 'different bytes' if r2.rc == 0 else r2.err[:100]), run=r2, sets=sets)
    o = held(sig=('default', opt, light, true_color), nontrivial=True, counters={'round_trips': 1, 'default_round_trips': 1}, sets=sets)
    o['executions'] = 3
    return o


def run_themed_item(opt, shown, sbs_):
    ref = Ref(shown)
    extra = ['--side-by-side', '--width', '200'] if sbs_ else []
    sets = {'options': [opt], 'color_mode': ['24bit'], 'with_syntax_theme': ['side-by-side' if sbs_ else 'unified']}
    res, _ = run_probe(opt, shown, True, extra=extra, theme='Dracula')
    c = crashmod.classify(res)
    if c is not None:
        return violated('c12:crash:' + c['signature'], c['detail'], run=res, sets=sets)
    if res.rc != 0:
        return inconclusive('exit %d: %s' % (res.rc, res.err[:100]), sets=sets)
    cells = find_cells(res.out, PROBES[opt][0])
    if cells is None:
        return violated('c12:text-missing', 'probe text not found in the output for style %r' % shown, PROBES[opt][0], None, run=res, sets=sets)

    def want(c):
        return None if c in (('none',), ('syntax',)) else c
    for cl in cells:
        if not cl.ch.strip():
            continue
        for which, got, exp in (('foreground', cl.fg, want(ref.fg)), ('background', cl.bg, want(ref.bg))):
            if got != exp:
                return violated('c12:%s-mismatch-with-theme:%s' % (which, opt), 'with a syntax theme active (%s view) text painted with --%s %r has %s %r, the style string says %r'
                                % ('side-by-side' if sbs_ else 'unified', opt, shown, which, got, exp), repr(exp), repr(got), run=res, sets=sets)
        if cl.attrs != frozenset(ref.attrs):
            return violated('c12:attributes-mismatch-with-theme:%s' % opt, 'attributes %s, the style string %r says %s' % (sorted(cl.attrs), shown, sorted(ref.attrs)),
                            sorted(ref.attrs), sorted(cl.attrs), run=res, sets=sets)
    return held(sig=('themed', opt, shown, sbs_), nontrivial=True, counters={'cells_checked': len(cells), 'themed_probes': 1}, sets=sets)


def run_item(item):
    kind, s, opt, true_color, seed = item
    if kind == 'default':
        return run_default_item(opt, s == 'light', true_color)
    if kind == 'themed':
        return run_themed_item(opt, s, true_color)
    rng = engine.item_rng(seed)
    if kind == 'rand':
        toks = []
        for _ in range(rng.randint(1, 5)):
            r = rng.random()
            if r < 0.3:
                toks.append('#%06x' % rng.randrange(1 << 24))
            elif r < 0.45:
                toks.append(rng.choice(sorted(CSS)))
            elif r < 0.6:
                toks.append(rng.choice(sorted(ANSI)))
            elif r < 0.7:
                toks.append(str(rng.randrange(256)))
            elif r < 0.8:
                toks.append(rng.choice(['normal', 'auto', 'syntax']))
            else:
                toks.append(rng.choice(ATTRS))
        s = ' '.join(toks)
    # steer strings to an option for which all of their words are defined
    words = s.lower().split()
    if 'omit' in words and opt not in ('file-style', 'commit-style'):
        opt = rng.choice(['file-style', 'commit-style'])
    elif 'raw' in words and opt not in RAW_OMIT_DEFINED:
        opt = rng.choice(sorted(RAW_OMIT_DEFINED))
    if 'underline' in words and opt in HEADER_OPTS and 'omit' not in words:
        opt = rng.choice(sorted(set(PROBES) - HEADER_OPTS - ({'grep-file-style', 'grep-line-number-style'} if 'raw' in words else set())))
        if 'raw' in words:
            opt = rng.choice(['minus-style', 'plus-style', 'zero-style'])
    if opt in SIMPLE_ONLY and set(words) & {'raw', 'omit', 'syntax', 'auto', 'underline', 'box', 'ol', 'overline'}:
        # (what these words mean for the less common style options is not spelled out: they are probed with colours and text
        # attributes only)
        opt = rng.choice(['minus-style', 'plus-style', 'zero-style'])
        if 'omit' in words:
            opt = rng.choice(['file-style', 'commit-style'])
        elif 'underline' in words and 'raw' not in words:
            opt = 'minus-emph-style'
    shown = decorate_case(rng, s)
    ref = Ref(shown)
    sets = {'options': [opt], 'color_mode': ['24bit' if true_color else '256']}
    counters = {'cells_checked': 0, 'rejected_as_expected': 0, 'round_trips': 0}
    res, args = run_probe(opt, shown, true_color)
    c = crashmod.classify(res)
    if c is not None:
        return violated('c12:crash:' + c['signature'], c['detail'], run=res, sets=sets)
    rejected = res.rc != 0
    low = [w.strip('"\'') for w in shown.lower().split()]
    if 'box' in low:
        # "box" is a decoration attribute, defined for header styles only: outside this property's grammar
        return inconclusive('string contains a decoration attribute', sets=sets)
    if opt in HEADER_OPTS and 'underline' in low:
        # in header styles the word "underline" asks for an underline *decoration* (documented special case); "ul" stays
        # a text attribute there
        return inconclusive('"underline" in a header style is a decoration request', sets=sets)
    if not ref.valid:
        if not rejected:
            return violated('c12:invalid-accepted', 'an invalid style string %r for --%s was accepted instead of rejected' % (shown, opt),
                            'exit 2 + message', 'exit 0', run=res, sets=sets)
        counters['rejected_as_expected'] = 1
        return held(sig=(opt, ' '.join(shown.lower().split()), true_color, 'invalid'), nontrivial=False, counters=counters, sets=sets)
    if rejected:
        return violated('c12:valid-rejected', 'a valid style string %r for --%s was rejected: %s' % (shown, opt, res.err[:200]), 'accepted', 'exit %d' % res.rc,
                        run=res, sets=sets)
    text = PROBES[opt][0]
    cells = find_cells(res.out, text)
    dfg, dbg, dattrs, dabsent = default_style(opt, true_color)
    defined = RAW_OMIT_DEFINED.get(opt)
    if ref.omit and defined == 'both':
        if cells is not None and opt == 'file-style':
            return violated('c12:omit-shown', 'element with an omit style is still shown', None, text, run=res, sets=sets)
        return held(sig=(opt, ' '.join(shown.lower().split()), true_color, 'omit'), nontrivial=True, counters=counters, sets=sets)
    if ref.omit or ref.raw:
        if not defined or (ref.omit and defined != 'both'):
            return inconclusive('omit/raw are not defined for this option', sets=sets)
    auto_both = ref.fg == ('auto',) and ref.bg == ('auto',)
    if auto_both and opt == 'commit-style' and not ref.raw:
        return inconclusive("'auto auto' on an option whose default is raw: not specified", sets=sets)
    if ref.raw:
        # raw: the element keeps its input rendition (none)
        if cells is None:
            return violated('c12:raw-missing', 'text of a raw-styled element not found in the output', text, None, run=res, sets=sets)
        for cl in cells:
            if (cl.fg, cl.bg) != (None, None) or cl.attrs:
                return violated('c12:raw-painted', 'a raw-styled element was painted', 'no rendition', repr(cl), run=res, sets=sets)
        return held(sig=(opt, ' '.join(shown.lower().split()), true_color, 'raw'), nontrivial=True, counters=counters, sets=sets)
    if cells is None:
        return violated('c12:text-missing', 'probe text %r not found in the output for style %r' % (text, shown), text, None, run=res, sets=sets)

    def resolve(c, default):
        if c == ('none',) or c == ('syntax',):
            return None
        if c == ('auto',):
            return default
        return c
    efg = resolve(ref.fg, dfg)
    ebg = resolve(ref.bg, dbg)
    eattrs = frozenset(ref.attrs)
    if ref.fg == ('auto',) and ref.bg == ('auto',):
        pass
    for cl in cells:
        counters['cells_checked'] += 1
        for which, got, exp, spec in (('foreground', cl.fg, efg, ref.fg), ('background', cl.bg, ebg, ref.bg)):
            if spec == ('auto',) and opt not in AUTO_DEFINED:
                continue    # "delta chooses": no automatic colour is documented for this option
            if exp is not None and exp[0] == 'rgb' and not true_color and spec[0] == 'rgb':
                # 256-colour mode: must be a palette index near the requested colour, never a 24-bit sequence
                if got is None or got[0] != 'idx':
                    return violated('c12:truecolor-in-256-mode', '%s %r painted as %r in 256-colour mode' % (which, spec, got), 'palette index', repr(got), run=res, sets=sets)
                best = min(dist(palette_rgb(n), exp[1]) for n in range(16, 256))
                if dist(palette_rgb(got[1]), exp[1]) > 2 * best + 40:
                    return violated('c12:bad-256-approximation', '%s %r approximated by palette colour %d %r' % (which, exp[1], got[1], palette_rgb(got[1])),
                                    'near %r' % (exp[1],), got[1], run=res, sets=sets)
            elif got != exp:
                return violated('c12:%s-mismatch:%s' % (which, opt), 'text painted with --%s %r has %s %r, the style string says %r' % (opt, shown, which, got, exp),
                                repr(exp), repr(got), run=res, sets=sets)
        if cl.attrs != eattrs:
            return violated('c12:attributes-mismatch:%s' % opt, 'text painted with --%s %r has attributes %s, the style string says %s' % (opt, shown, sorted(cl.attrs), sorted(eattrs)),
                            sorted(eattrs), sorted(cl.attrs), run=res, sets=sets)
    # round trip through --show-config
    executions = 1
    if opt in IN_SHOW_CONFIG and rng.random() < 0.5:
        sc, _ = run_probe(opt, shown, true_color, extra=['--show-config'])
        executions += 1
        m = re.search(r'^\s+%s\s+= (.*)$' % re.escape(opt), term.strip_escapes(sc.out.decode('utf-8', 'replace')), re.M)
        if m:
            back = m.group(1).strip()
            r2, _ = run_probe(opt, back, true_color)
            executions += 1
            counters['round_trips'] = 1
            if r2.rc != 0 or r2.out != res.out:
                return violated('c12:show-config-round-trip:%s' % opt, 'the style reported by --show-config (%r) for %r does not reproduce the rendering when supplied again' % (back, shown),
                                'identical rendering', 'rc %d, %s' % (r2.rc, 'different bytes' if r2.rc == 0 else r2.err[:100]), run=r2, sets=sets)
            if rng.random() < 0.5:
                # ... also when it is supplied where options usually live: as written by --show-config, in a git config file
                # (where an unquoted '#' would start a comment)
                cfgp = runner.write_file('c12_rt.gitconfig', '[delta]\n    %s = %s\n' % (opt, back))
                data, parent = probe_input(opt)
                a3 = ['--paging', 'never', '--config', cfgp, '--syntax-theme', 'none', '--true-color', 'always' if true_color else 'never', '--dark'] + PROBES[opt][1]
                r3 = runner.run_delta(a3, data, parent_argv=parent)
                executions += 1
                counters['round_trips_gitconfig'] = 1
                if r3.rc != 0 or r3.out != res.out:
                    return violated('c12:show-config-round-trip-gitconfig:%s' % opt, 'the line --show-config prints for %r (%s = %s), put into a git config file, does not reproduce '
                                    'the rendering' % (shown, opt, back), 'identical rendering', 'rc %d, %s' % (r3.rc, 'different bytes' if r3.rc == 0 else r3.err[:100]),
                                    run=r3, sets=sets)
    nontrivial = bool(ref.attrs) or ref.fg[0] in ('idx', 'rgb') or ref.bg[0] in ('idx', 'rgb')
    o = held(sig=(opt, ' '.join(shown.lower().replace('"', '').split()), true_color), nontrivial=nontrivial, counters=counters, sets=sets,
             sample={'option': opt, 'style': shown, 'mode': '24bit' if true_color else '256', 'cell': repr(cells[0])})
    o['executions'] = executions
    return o


def floors(ctx, agg):
    p = []
    if agg.counters.get('cells_checked', 0) < 15000:
        p.append('fewer than 15000 painted cells compared')
    if agg.counters.get('rejected_as_expected', 0) < 300:
        p.append('fewer than 300 invalid strings seen rejected')
    if agg.counters.get('round_trips', 0) < 300:
        p.append('fewer than 300 show-config round trips')
    if len(agg.sets.get('options', ())) < 11:
        p.append('not every option probed')
    return p
