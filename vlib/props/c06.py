"""C06 - within-line emphasis marks exactly what changed between paired lines."""
import itertools

from .. import engine, gen, rows, runner, sbs, term
from ..engine import held, inconclusive, violated, crash_outcome
from . import c07

ID = 'C06'
LEVEL = 'exploration'
RULE = ('(a) exhaustive: all ordered pairs of token sequences of length 0-4 over {a,b,blank} (14641 pairs) and of length 0-3 over '
        '{a,b,c,blank,(} (24336 pairs), one 1-minus/1-plus sub-hunk each, thousands of sub-hunks per delta run; (b) random '
        'realistic lines (code-like, Unicode, repeated tokens, whitespace-only differences) in m x n sub-hunks, m,n<=6, in '
        'unified and side-by-side view; (c) pairs differing by exactly one contiguous token run; x tokenisation regexes x '
        'distance thresholds 0/0.3/0.6/1; an evaluation is one sub-hunk; distinct = the (minus lines, plus lines, regex, '
        'distance) tuple; non-trivial = the sub-hunk has a pair that is rendered with emphasis')
ASSUMPTIONS = ['emph / non-emph / plain / whitespace-error cells are recognised by reserved background colours',
               'a line "has a partner" iff it is painted with the non-emph/emph styles (unified) or shares its row (side-by-side)']
CHUNK = 1
REGEXES = [r'\w+', '.', r'\S+', '[a-z]+']
DISTANCES = ['0', '0.3', '0.6', '1']


def seqs(alphabet, maxlen):
    out = []
    for n in range(maxlen + 1):
        for t in itertools.product(alphabet, repeat=n):
            out.append(''.join(t))
    return out


def plan(ctx):
    items = []
    s1 = seqs(['a', 'b', ' '], 4)
    s2 = seqs(['a', 'b', 'c', ' ', '('], 3)
    combos = [(r, dd) for r in REGEXES for dd in DISTANCES]
    if ctx.tier == 'quick':
        # the whole small alphabet once per run (regex/distance rotate with the seed), plus samples of the rest
        for (r, dd) in combos:
            for part in range(2):
                items.append(('exh', 1, part, 2, r, dd))
        r2, dd2 = combos[(ctx.seed * 7 + 3) % len(combos)]
        for part in range(2):
            items.append(('exh', 2, part, 8, r2, dd2))
        for i in range(ctx.n(60, 0)):
            items.append(('rand', engine.stable_hash((ctx.seed, 'c06r', i))))
        for i in range(ctx.n(40, 0)):
            items.append(('single', engine.stable_hash((ctx.seed, 'c06s', i))))
        for i in range(ctx.n(24, 0)):
            items.append(('long', engine.stable_hash((ctx.seed, 'c06l', i))))
        for i in range(ctx.n(20, 0)):
            items.append(('bufedge', engine.stable_hash((ctx.seed, 'c06b', i))))
        for i in range(ctx.n(30, 0)):
            items.append(('sbswrap', engine.stable_hash((ctx.seed, 'c06w', i))))
    else:
        for (r, dd) in combos:
            for part in range(4):
                items.append(('exh', 1, part, 4, r, dd))
            for part in range(8):
                items.append(('exh', 2, part, 8, r, dd))
        for i in range(ctx.n(0, 3000)):
            items.append(('rand', engine.stable_hash((ctx.seed, 'c06r', i))))
        for i in range(ctx.n(0, 1500)):
            items.append(('single', engine.stable_hash((ctx.seed, 'c06s', i))))
        for i in range(ctx.n(0, 600)):
            items.append(('long', engine.stable_hash((ctx.seed, 'c06l', i))))
        for i in range(ctx.n(0, 300)):
            items.append(('bufedge', engine.stable_hash((ctx.seed, 'c06b', i))))
        for i in range(ctx.n(0, 600)):
            items.append(('sbswrap', engine.stable_hash((ctx.seed, 'c06w', i))))
    return items


def EXHAUSTIVE(ctx):
    return True


EXHAUSTIVE_SCOPE = ('all ordered pairs of token sequences of length 0-4 over {a,b,blank} x all 16 regex/distance combinations: every run; '
                    ' pairs over {a,b,c,blank,(} of length 0-3: complete only in '
                    'the thorough tier; random and single-run families are sampled')


def base_opts(regex, dist, sbs_view=False, by_reference=False, extra=None):
    o = gen.tagged_styles()
    if by_reference:
        # the emphasis styles given as references to other style options (a documented way to write a style): same
        # rendering as the value referred to
        o['--minus-empty-line-marker-style'] = o['--minus-emph-style']
        o['--plus-empty-line-marker-style'] = o['--plus-emph-style']
        o['--minus-emph-style'] = 'minus-empty-line-marker-style'
        o['--plus-emph-style'] = 'plus-empty-line-marker-style'
    o['--paging'] = 'never'
    o['--syntax-theme'] = 'none'
    o['--word-diff-regex'] = regex
    o['--max-line-distance'] = dist
    o['--line-fill-method'] = 'ansi'
    o['--file-style'] = 'omit'
    o['--hunk-header-style'] = gen.TAGS['hh'] + ' line-number'
    o['--hunk-header-decoration-style'] = 'none'
    o['--line-buffer-size'] = 64
    if extra:
        o.update(extra)
    if sbs_view:
        o['--side-by-side'] = True
        o['--width'] = 400
        o['--wrap-max-lines'] = 'unlimited'
        o['--line-numbers-left-format'] = ''
        o['--line-numbers-right-format'] = ''
    return o


def cell_classes(info):
    """[(char, cls)] for the code cells of a unified code row; cls in emph / nonemph / plain / ws."""
    out = []
    for c in info.cells_code:
        t = gen.TAG_BY_RGB.get(c.bg)
        if t in ('minus_emph', 'plus_emph'):
            cls = 'emph'
        elif t in ('minus_nonemph', 'plus_nonemph'):
            cls = 'nonemph'
        elif t == 'ws_err':
            cls = 'ws'
        else:
            cls = 'plain'
        out.append((c.ch, cls))
    return out


def strip_trailing_fill(cells, text):
    """Cells of the line itself (rows may carry trailing fill blanks beyond the text)."""
    s = ''.join(ch for ch, _ in cells)
    if s.startswith(text) and s[len(text):].strip(' ') == '':
        n = 0
        k = 0
        while k < len(cells) and n < len(text):
            n += len(cells[k][0])
            k += 1
        return cells[:k], True
    return cells, s == text


def is_subsequence(small, big):
    it = iter(big)
    return all(ch in it for ch in small)


def soundness(mc, pc):
    """Deleting the emphasised cells from both rows leaves the same text.  Cells painted with the
    whitespace-error style (a trailing whitespace run of the added line) hide whether they are
    emphasised, so each of them may count either way."""
    mk = ''.join(ch for ch, cl in mc if cl != 'emph')
    body = ''.join(ch for ch, cl in pc if cl not in ('emph', 'ws'))
    ws = ''.join(ch for ch, cl in pc if cl == 'ws')
    if not mk.startswith(body):
        # ws cells are a trailing run, but be general: try the two extreme assignments as well
        pk_all = ''.join(ch for ch, cl in pc if cl != 'emph')
        return mk == pk_all or mk == body
    return is_subsequence(mk[len(body):], ws)


def has_emph(cells):
    return any(cl == 'emph' for _, cl in cells)


def paired(cells):
    return any(cl in ('emph', 'nonemph') for _, cl in cells)


def run_subhunks(subhunks, regex, dist, sbs_view=False, by_reference=False, extra=None):
    """subhunks: list of (minus_lines, plus_lines).  Returns (res, per-subhunk list of (minus_infos, plus_infos)) for
    unified view."""
    lines = ['diff --git a/f b/f', '--- a/f', '+++ b/f']
    o = 1
    for (ms, ps) in subhunks:
        lines.append('@@ -%d,%d +%d,%d @@' % (o, len(ms) + 1, o, len(ps) + 1))
        lines += ['-' + m for m in ms] + ['+' + p for p in ps] + [' ZZctxZZ']
        o += 1
    data = ('\n'.join(lines) + '\n').encode()
    res = runner.run_delta(gen.to_args(base_opts(regex, dist, sbs_view, by_reference, extra)), data, timeout=120)
    return res


def split_unified(res, subhunks):
    infos = rows.classify_all(res.out, merge=False)   # per code point: the tokeniser may split graphemes
    groups = []
    cur = None
    for info in infos:
        if info.kind == 'hunk':
            cur = []
            groups.append(cur)
        elif info.kind in ('code',) and cur is not None:
            cur.append(info)
        elif info.kind == 'blank' and cur is not None and False:
            pass
    return groups


def check_unified_group(grp, ms, ps, dist, counters):
    """grp: code rows of one hunk (minus rows, plus rows, ctx row).  Returns None or (key, what, exp, obs)."""
    rows_m = grp[:len(ms)]
    rows_p = grp[len(ms):len(ms) + len(ps)]
    if len(grp) != len(ms) + len(ps) + 1:
        return ('structure', 'unexpected number of rows in sub-hunk', len(ms) + len(ps) + 1, len(grp))
    mcs, pcs = [], []
    for info, t, k in [(i, t, '-') for i, t in zip(rows_m, ms)] + [(i, t, '+') for i, t in zip(rows_p, ps)]:
        if info.code_kinds and info.code_kinds != {k}:
            return ('structure', 'row kind mismatch', k, repr(info))
        cells, ok = strip_trailing_fill(cell_classes(info), t)
        if not ok:
            return ('structure', 'row text mismatch', t, info.code)
        (mcs if k == '-' else pcs).append(cells)
    # (2) the unchanged line that closes the sub-hunk carries neither emphasis nor a pairing style
    # (that lines without partner carry no emphasis is observable in the side-by-side view only, where pairing shows
    # as row sharing: check_sbs_pairing)
    ctx_cells = cell_classes(grp[-1])
    if ''.join(ch for ch, _ in ctx_cells).strip() != 'ZZctxZZ':
        return ('structure', 'context row text mismatch', 'ZZctxZZ', grp[-1].code)
    if any(cl != 'plain' for ch, cl in ctx_cells if ch != ' ') or grp[-1].code_kinds not in (set(), {' '}):
        return ('emph-on-unchanged-line', 'an unchanged line carries an emphasis / pairing style', 'plain', ctx_cells)
    counters['context_rows_checked'] = counters.get('context_rows_checked', 0) + 1
    nm = sum(1 for c in mcs if paired(c))
    np_ = sum(1 for c in pcs if paired(c))
    # a line without visible characters shows no pairing style (no cells, or whitespace-error cells only):
    # whether it has a partner cannot be observed, so pairing structure is only checked without such lines
    all_visible = all(t.strip() for t in ms) and all(t.strip() for t in ps)
    if not all_visible:
        for i in range(min(len(mcs), len(pcs))):
            if paired(mcs[i]) and paired(pcs[i]) and len(ms) == len(ps) == 1:
                counters['pairs_checked'] += 1
                if has_emph(mcs[i]) or has_emph(pcs[i]):
                    counters['pairs_with_emphasis'] += 1
                if not soundness(mcs[i], pcs[i]):
                    return ('unsound-emphasis', 'deleting the emphasised parts from a removed line and its added partner does not leave the same text',
                            (ms[i], ps[i]), (mcs[i], pcs[i]))
        return None
    if nm != np_:
        return ('pairing-asymmetric', 'different numbers of removed and added lines are rendered as having a partner', nm, np_)
    if dist == '1':
        k = min(len(ms), len(ps))
        for i in range(k):
            if not paired(mcs[i]) or not paired(pcs[i]):
                return ('distance-1-pairing', 'with the maximum distance 1 the i-th removed line must be paired with the i-th added line',
                        'line %d paired' % i, (mcs[i], pcs[i]))
        for i in range(k, len(ms)):
            if paired(mcs[i]):
                return ('distance-1-pairing', 'more removed lines paired than there are added lines', None, mcs[i])
        for i in range(k, len(ps)):
            if paired(pcs[i]):
                return ('distance-1-pairing', 'more added lines paired than there are removed lines', None, pcs[i])
    # order-preserving pairing: the k-th paired minus goes with the k-th paired plus
    pm = [i for i, c in enumerate(mcs) if paired(c)]
    pp = [i for i, c in enumerate(pcs) if paired(c)]
    if len(pm) == len(pp):
        for i, j in zip(pm, pp):
            counters['pairs_checked'] += 1
            if has_emph(mcs[i]) or has_emph(pcs[j]):
                counters['pairs_with_emphasis'] += 1
            if ms[i] == ps[j] and (has_emph(mcs[i]) or has_emph(pcs[j])):
                return ('emph-on-identical-pair', 'a pair of identical lines carries emphasis', ms[i], (mcs[i], pcs[j]))
            if not soundness(mcs[i], pcs[j]):
                return ('unsound-emphasis', 'deleting the emphasised parts from a removed line and its added partner does not leave the same text',
                        (ms[i], ps[j]), (mcs[i], pcs[j]))
            if dist == '0' and ''.join(ms[i].split()) != ''.join(ps[j].split()):
                return ('distance-0-pairing', 'with the maximum distance 0 only lines that differ in nothing but whitespace may be paired',
                        (ms[i], ps[j]), 'paired')
    return None


def run_item(item):
    kind = item[0]
    if kind == 'exh':
        return run_exh(item)
    if kind == 'rand':
        return run_rand(item)
    if kind == 'long':
        return run_long(item)
    if kind == 'bufedge':
        return run_buffer_edge(item)
    if kind == 'sbswrap':
        return run_sbs_wrapped(item)
    return run_single(item)


def run_sbs_wrapped(item):
    """Side-by-side view, panels so narrow that the lines of a pair wrap into different numbers of rows, several pairs per
    sub-hunk: every line is put together again from its rows (per panel), and the reassembled pair must satisfy the same
    oracle as in the unified view - deleting the emphasised parts of both leaves the same text."""
    _, seed = item
    rng = engine.item_rng(seed)
    W = rng.choice([60, 72, 80, 100])
    words = ['alpha', 'beta', 'gamma', 'delta', 'compute', 'first_arg', 'second', 'value', 'x', 'yy', 'result', 'return', 'config']
    subhunks = []
    for _ in range(24):
        k = rng.randint(2, 3)
        ms, ps = [], []
        for j in range(k):
            toks = [rng.choice(words) + str(rng.randrange(100)) for _ in range(rng.randint(6, 34))]
            t2 = list(toks)
            t2[rng.randrange(len(t2))] = 'CHANGED%d' % rng.randrange(100)
            r = rng.random()
            if r < 0.45 and len(t2) > 8:
                t2 = t2[:rng.randint(3, len(t2) // 2)]          # the added line is much shorter: fewer rows
            elif r < 0.7:
                t2 = t2 + [rng.choice(words) + str(rng.randrange(100)) for _ in range(rng.randint(4, 20))]   # ... or longer
            ms.append(' '.join(toks))
            ps.append(' '.join(t2))
        subhunks.append((ms, ps))
    extra = {'--wrap-max-lines': 'unlimited'}
    lines = ['diff --git a/f b/f', '--- a/f', '+++ b/f']
    for o_, (ms, ps) in enumerate(subhunks):
        lines.append('@@ -%d,%d +%d,%d @@' % (o_ + 1, len(ms) + 1, o_ + 1, len(ps) + 1))
        lines += ['-' + m for m in ms] + ['+' + p_ for p_ in ps] + [' ZZctxZZ']
    opts = base_opts(r'\w+', '1', sbs_view=True, extra=extra)
    opts['--width'] = W
    res = runner.run_delta(gen.to_args(opts), ('\n'.join(lines) + '\n').encode(), timeout=120)
    c = crash_outcome(res, ID)
    if c is not None:
        return [c]
    if res.rc != 0:
        return [inconclusive('exit %d: %s' % (res.rc, res.err[:100]))]
    groups = []
    cur = None
    for info in rows.classify_all(res.out):
        if info.kind == 'hunk':
            cur = []
            groups.append(cur)
        elif info.kind == 'code' and cur is not None:
            cur.append(info)
    sets = {'family': ['sbs-wrapped'], 'regex': ['\\w+'], 'distance': ['1'], 'sbs_wrapped_widths': [str(W)]}
    if len(groups) != len(subhunks):
        return [inconclusive('side-by-side output could not be split into sub-hunks', sets=sets)]
    outs = []
    counters = {'sbs_wrapped_pairs': 0, 'sbs_wrapped_uneven_pairs': 0, 'sbs_rows': 0}

    def cls_of(c_):
        t = gen.TAG_BY_RGB.get(c_.bg)
        return 'emph' if t in ('minus_emph', 'plus_emph') else 'nonemph' if t in ('minus_nonemph', 'plus_nonemph') else 'ws' if t == 'ws_err' else 'plain'
    for grp, (ms, ps) in zip(groups, subhunks):
        sides = {0: [], 1: []}      # per side: list of [cells of the line, number of rows]
        open_ = {0: False, 1: False}
        for info in grp:
            L, R, ok = sbs.parse_sbs_row(info.row, W)
            counters['sbs_rows'] += 1
            for side, P, kind in ((0, L, '-'), (1, R, '+')):
                if P.kind is None and not P.code_cells:
                    continue
                if P.kind not in (kind, None):
                    continue          # the context line at the end of the sub-hunk
                cells = [(c_.ch, cls_of(c_)) for c_ in P.code_cells]
                if open_[side] and sides[side]:
                    sides[side][-1][0] += cells
                    sides[side][-1][1] += 1
                else:
                    sides[side].append([cells, 1])
                open_[side] = P.has_wrap
        ex = {'minus': ms, 'plus': ps, 'width': W}
        bad = False
        for side, want, name in ((0, ms, 'left'), (1, ps, 'right')):
            got = [''.join(ch for ch, _ in cells).rstrip(' ') for cells, _ in sides[side]]
            if got != [w_.rstrip(' ') for w_ in want]:
                outs.append(violated('c06:sbs-wrapped:reassembly:' + name, 'the rows of the %s panel, put together again, are not the lines of the sub-hunk (once each, in order)' % name,
                                     want, got, run=res, sets=sets, extra=ex))
                bad = True
        if bad:
            continue
        for j in range(min(len(ms), len(ps))):
            mc, _n1 = sides[0][j]
            pc, _n2 = sides[1][j]
            mc, _ = strip_trailing_fill(mc, ms[j])
            pc, _ = strip_trailing_fill(pc, ps[j])
            counters['sbs_wrapped_pairs'] += 1
            if _n1 != _n2:
                counters['sbs_wrapped_uneven_pairs'] += 1
            if not soundness(mc, pc):
                outs.append(violated('c06:sbs-wrapped:unsound', 'side-by-side, wrapped pair %d of a sub-hunk: deleting the emphasised parts of both lines does not leave the same text' % j,
                                     ''.join(ch for ch, cl in mc if cl != 'emph'), ''.join(ch for ch, cl in pc if cl != 'emph'), run=res, sets=sets, extra=ex))
    outs.append(held(sig=('sbs-wrapped', W, seed % 1000), nontrivial=counters['sbs_wrapped_uneven_pairs'] > 0, counters=counters, sets=sets))
    return outs


def outcomes_for(res, subhunks, regex, dist, tag):
    c = crash_outcome(res, ID)
    if c is not None:
        return [c]
    if res.rc != 0:
        return [inconclusive('exit %d: %s' % (res.rc, res.err[:120]))]
    groups = split_unified(res, subhunks)
    if len(groups) != len(subhunks):
        return [inconclusive('oracle could not split the output into sub-hunks (%d vs %d)' % (len(groups), len(subhunks)))]
    outs = []
    counters = {'pairs_checked': 0, 'pairs_with_emphasis': 0, 'subhunks': 0}
    sets = {'family': [tag], 'regex': [regex], 'distance': [dist]}
    sigs = 0
    nontriv = 0
    for grp, (ms, ps) in zip(groups, subhunks):
        before = counters['pairs_with_emphasis']
        bad = check_unified_group(grp, ms, ps, dist, counters)
        counters['subhunks'] += 1
        if bad is not None:
            key, what, exp, obs = bad
            if key == 'structure':
                outs.append(inconclusive('oracle could not align a sub-hunk: %s' % what))
                continue
            v = violated('c06:%s' % key, what + ' (regex %s, distance %s)' % (regex, dist), repr(exp), repr(obs)[:600], counters={}, sets=sets,
                         extra={'minus': ms, 'plus': ps, 'regex': regex, 'distance': dist})
            v['violation']['run'] = {'args': gen.to_args(base_opts(regex, dist)), 'env': {}, 'mode': 'pipe', 'pty_size': [24, 80], 'rc': 0,
                                     'signal': None, 'timed_out': False, 'stdin_b64': None, 'stdin_len': 0, 'stderr_tail': '',
                                     'stdout_head_b64': ''}
            outs.append(v)
        else:
            sigs += 1
            if counters['pairs_with_emphasis'] > before:
                nontriv += 1
    # one aggregated held outcome per batch would lose distinctness: emit compact per-sub-hunk outcomes
    okc = dict(counters)
    first = True
    import hashlib
    for (ms, ps) in subhunks[:]:
        pass
    agg = held(sig=None, nontrivial=False, counters=okc, sets=sets)
    agg['executions'] = 0
    outs.append(agg)
    # distinct signatures: hashed tuples, reported through a set (engine counts sigs of held outcomes)
    for idx, (ms, ps) in enumerate(subhunks):
        o = {'status': 'held', 'sig': hashlib.sha1(repr((ms, ps, regex, dist)).encode()).hexdigest()[:12], 'nontrivial': True,
             'counters': {}, 'sets': {}, 'sample': ({'family': tag, 'minus': ms, 'plus': ps, 'regex': regex, 'distance': dist}
                                                     if idx < 2 else None), 'executions': 1}
        outs.append(o)
    return outs


def run_exh(item):
    _, which, part, nparts, regex, dist = item
    alpha = (['a', 'b', ' '], 4) if which == 1 else (['a', 'b', 'c', ' ', '('], 3)
    S = seqs(*alpha)
    pairs = [(x, y) for x in S for y in S]
    chunk = (len(pairs) + nparts - 1) // nparts
    mine = pairs[part * chunk:(part + 1) * chunk]
    subhunks = [([x], [y]) for x, y in mine]
    res = run_subhunks(subhunks, regex, dist)
    return outcomes_for(res, subhunks, regex, dist, 'exhaustive-%d' % which)


def rand_line(rng):
    r = rng.random()
    if r < 0.7:
        return gen.rand_text(rng, 60, tabs_ok=False, allow_empty=False).rstrip('\n') or 'x'
    toks = [rng.choice(['foo', 'foo', 'bar', 'x', '(', ')', ',', '=', '1', '日本', 'é']) for _ in range(rng.randint(1, 10))]
    return rng.choice([' ', '', '  ']).join(toks) + rng.choice(['', '', ' ', '  '])


def run_rand(item):
    _, seed = item
    rng = engine.item_rng(seed)
    regex = rng.choice(REGEXES)
    dist = rng.choice(DISTANCES)
    subhunks = []
    for _ in range(150):
        m, n = rng.randint(0, 6), rng.randint(0, 6)
        if m == 0 and n == 0:
            m = 1
        ms = [rand_line(rng) for _ in range(m)]
        ps = []
        for j in range(n):
            r = rng.random()
            if j < m and r < 0.5:
                ps.append(gen.mutate_text(rng, ms[j]))
            elif j < m and r < 0.6:
                ps.append(' '.join(ms[j].split()) + ' ')        # whitespace-only difference
            elif j < m and r < 0.65:
                ps.append(ms[j])                               # identical
            elif m and r < 0.75:
                ps.append(gen.mutate_text(rng, rng.choice(ms)))  # similar to some other line
            else:
                ps.append(rand_line(rng))
        subhunks.append((ms, ps))
    res = run_subhunks(subhunks, regex, dist)
    outs = outcomes_for(res, subhunks, regex, dist, 'random')
    # side-by-side pairing view on a part of them
    sub2 = [sh for sh in subhunks[:40] if all(sh[0]) and all(sh[1])]
    res2 = run_subhunks(sub2, regex, dist, sbs_view=True)
    if crash_outcome(res2, ID) is None and res2.rc == 0:
        outs += check_sbs_pairing(res2, sub2, regex, dist)
    return outs


def check_sbs_pairing(res, subhunks, regex, dist):
    infos = rows.classify_all(res.out)
    groups = []
    cur = None
    for info in infos:
        if info.kind == 'hunk':
            cur = []
            groups.append(cur)
        elif info.kind == 'code' and cur is not None:
            cur.append(info)
    outs = []
    if len(groups) != len(subhunks):
        return [inconclusive('side-by-side output could not be split into sub-hunks')]
    sets = {'family': ['random-sbs'], 'regex': [regex], 'distance': [dist]}
    counters = {'sbs_rows': 0, 'sbs_shared_rows': 0}
    for grp, (ms, ps) in zip(groups, subhunks):
        mi = pi = 0
        pairs = []
        for info in grp[:-1]:
            L, R, ok = sbs.parse_sbs_row(info.row, 400)
            counters['sbs_rows'] += 1
            lt = L.text().rstrip(' ')
            rt = R.text().rstrip(' ')
            hasl = L.kind == '-'
            hasr = R.kind == '+' or (R.kind is None and info.row.fills and not R.code_cells and pi < len(ps))
            if hasl and hasr:
                pairs.append((mi, pi))
                counters['sbs_shared_rows'] += 1
            if hasl:
                mi += 1
            if hasr:
                pi += 1
        # every line exactly once per side, in order (what the panels show, not only how many rows there are)
        lt_seq = []
        rt_seq = []
        for info in grp[:-1]:
            L, R, ok = sbs.parse_sbs_row(info.row, 400)
            if L.kind == '-':
                lt_seq.append(L.text().rstrip(' '))
            if R.kind == '+':
                rt_seq.append(R.text().rstrip(' '))
            # a row without partner carries no emphasis
            if (L.kind == '-') != (R.kind == '+' or (R.kind is None and info.row.fills and not R.code_cells)):
                side = L if L.kind == '-' else R
                if any(gen.TAG_BY_RGB.get(c_.bg) in ('minus_emph', 'plus_emph') for c_ in side.code_cells):
                    outs.append(violated('c06:emph-on-unpaired-line:sbs', 'a line that shares its row with no partner carries emphasis', None, side.text(), sets=sets,
                                         extra={'minus': ms, 'plus': ps, 'regex': regex, 'distance': dist}))
        if all(t.strip() for t in ms + ps) and (lt_seq != [m.rstrip(' ') for m in ms] or rt_seq != [p_.rstrip(' ') for p_ in ps]):
            outs.append(violated('c06:sbs-lines-not-once-in-order', 'side-by-side panels do not show every line of the sub-hunk once, in order',
                                 (ms, ps), (lt_seq, rt_seq), sets=sets, extra={'minus': ms, 'plus': ps, 'regex': regex, 'distance': dist}))
            continue
        if mi != len(ms) or pi != len(ps):
            outs.append(inconclusive('side-by-side rows could not be aligned with the sub-hunk'))
            continue
        for (i, j) in pairs:
            if dist == '0' and ''.join(ms[i].split()) != ''.join(ps[j].split()):
                outs.append(violated('c06:distance-0-pairing:sbs', 'with the maximum distance 0 two lines that differ in more than whitespace share a row',
                                     (ms[i], ps[j]), 'share a row', sets=sets, extra={'minus': ms, 'plus': ps, 'regex': regex}))
        if dist == '1':
            k = min(len(ms), len(ps))
            if pairs[:k] != [(i, i) for i in range(k)]:
                outs.append(violated('c06:distance-1-pairing:sbs', 'with the maximum distance 1 the i-th removed line must share its row with the i-th added line',
                                     [(i, i) for i in range(k)], pairs, sets=sets, extra={'minus': ms, 'plus': ps, 'regex': regex}))
        for a, b in zip(pairs, pairs[1:]):
            if not (a[0] < b[0] and a[1] < b[1]):
                outs.append(violated('c06:crossing-pairs', 'pairs of lines cross', None, pairs, sets=sets))
    o = held(sig=None, nontrivial=False, counters=counters, sets=sets)
    outs.append(o)
    return outs


TOK_A = ['foo', 'bar', 'qux', 'x1', 'k']
TOK_X = ['AAA', 'BB', 'C9']
TOK_Y = ['ddd', 'ee', 'f7']


def run_single(item):
    """Pairs that differ by exactly one contiguous token run."""
    _, seed = item
    rng = engine.item_rng(seed)
    regex = rng.choice([r'\w+', r'\S+'])
    dist = rng.choice(['0.6', '1'])
    subhunks = []
    specs = []
    for _ in range(120):
        P = [rng.choice(TOK_A) for _ in range(rng.randint(2, 5))]
        S = [rng.choice(TOK_A) for _ in range(rng.randint(2, 5))]
        X = [rng.choice(TOK_X) for _ in range(rng.randint(0, 2))]
        Y = [rng.choice(TOK_Y) for _ in range(rng.randint(0 if X else 1, 2))]
        minus = ' '.join(P + X + S)
        plus = ' '.join(P + Y + S)
        subhunks.append(([minus], [plus]))
        specs.append((' '.join(X), ' '.join(Y)))
    by_ref = seed % 3 == 0
    res = run_subhunks(subhunks, regex, dist, by_reference=by_ref)
    outs = outcomes_for(res, subhunks, regex, dist, 'single-run' + ('/styles-by-reference' if by_ref else ''))
    if crash_outcome(res, ID) is not None or res.rc != 0:
        return outs
    groups = split_unified(res, subhunks)
    if len(groups) != len(subhunks):
        return outs
    sets = {'family': ['single-run'], 'regex': [regex], 'distance': [dist]}
    counters = {'single_run_pairs': 0}
    for grp, (ms, ps), (X, Y) in zip(groups, subhunks, specs):
        if len(grp) != 3:
            continue
        for info, text, run in ((grp[0], ms[0], X), (grp[1], ps[0], Y)):
            cells, ok = strip_trailing_fill(cell_classes(info), text)
            if not ok or not paired(cells):
                continue
            idx = [i for i, (_, cl) in enumerate(cells) if cl == 'emph']
            if not idx:
                if run.strip():
                    outs.append(violated('c06:single-run:not-emphasised', 'the one differing token run carries no emphasis', run, cells, sets=sets,
                                         extra={'minus': ms, 'plus': ps, 'regex': regex, 'distance': dist}))
                continue
            if idx != list(range(idx[0], idx[-1] + 1)):
                outs.append(violated('c06:single-run:not-contiguous', 'emphasis on a line that differs by one contiguous token run is not one contiguous stretch',
                                     run, cells, sets=sets, extra={'minus': ms, 'plus': ps, 'regex': regex, 'distance': dist}))
                continue
            em = ''.join(cells[i][0] for i in idx)
            if em.strip() != run.strip():
                outs.append(violated('c06:single-run:wrong-extent', 'the emphasised stretch is not the differing token run (up to adjacent whitespace)',
                                     run, em, sets=sets, extra={'minus': ms, 'plus': ps, 'regex': regex, 'distance': dist}))
                continue
            counters['single_run_pairs'] += 1
    outs.append(held(sig=None, nontrivial=False, counters=counters, sets=sets))
    return outs


LONG_WORDS = {'cyrillic': ['строка', 'значение', 'проверка', 'файл', 'изменение'], 'cjk': ['変更', '確認', '行の', 'ファイル', '値'],
              'emoji': ['😀😀', '🚀', '🎉🎉🎉', 'ok'], 'ascii': ['value', 'check', 'line', 'file', 'change'], 'greek': ['αλλαγή', 'γραμμή', 'τιμή']}


def run_long(item):
    """Pairs of very long lines (up to the default --max-line-length of 3000 columns; in bytes well beyond it for
    non-ASCII text) that differ in one word: paired, and exactly that word emphasised."""
    _, seed = item
    rng = engine.item_rng(seed)
    regex = r'\w+'
    dist = rng.choice(['0.6', '1'])
    subhunks, specs, scripts = [], [], []
    for _ in range(3):
        script = rng.choice(sorted(LONG_WORDS))
        target = rng.choice([600, 1500, 2300, 2900])       # columns
        words, w = [], 0
        while True:
            x = rng.choice(LONG_WORDS[script])
            wx = sum(term.char_width(ch) for ch in x) + 1
            if w + wx > target:
                break
            words.append(x)
            w += wx
        k = rng.randrange(1, len(words) - 1)
        minus = ' '.join(words[:k] + ['OLDWORD'] + words[k:])
        plus = ' '.join(words[:k] + ['NEWWORD'] + words[k:])
        subhunks.append(([minus], [plus]))
        specs.append(('OLDWORD', 'NEWWORD'))
        scripts.append('%s:%d' % (script, target))
    res = run_subhunks(subhunks, regex, dist)
    c = crash_outcome(res, ID)
    if c is not None:
        return [c]
    if res.rc != 0:
        return [inconclusive('exit %d' % res.rc)]
    groups = split_unified(res, subhunks)
    sets = {'family': ['long-lines'], 'regex': [regex], 'distance': [dist], 'long_line_shapes': scripts}
    if len(groups) != len(subhunks):
        return [inconclusive('rows of the long-line sub-hunks could not be grouped', sets=sets)]
    outs = []
    counters = {'long_pairs': 0}
    for grp, (ms, ps), (X, Y), sc in zip(groups, subhunks, specs, scripts):
        if len(grp) != 3:
            outs.append(inconclusive('a long line is not shown on one row (%s)' % sc, sets=sets))
            continue
        for info, text, run in ((grp[0], ms[0], X), (grp[1], ps[0], Y)):
            cells, ok = strip_trailing_fill(cell_classes(info), text)
            if not ok:
                outs.append(inconclusive('text of a long line not recognised in its row (%s)' % sc, sets=sets))
                break
            if not paired(cells):
                outs.append(violated('c06:long-lines:not-paired', 'two lines of %s bytes (%s columns) that differ in one word are not paired although their '
                                     'distance is far below the threshold %s' % (len(text.encode()), sc, dist), 'paired', 'unpaired', run=res, sets=sets))
                break
            em = ''.join(ch for ch, cl in cells if cl == 'emph')
            if em.strip() != run:
                outs.append(violated('c06:long-lines:wrong-extent', 'the emphasised text of a long line is not the one differing word (%s)' % sc, run, em[:80], run=res, sets=sets))
                break
        else:
            counters['long_pairs'] += 1
    outs.append(held(sig=('long', tuple(scripts), dist), nontrivial=True, counters=counters, sets=sets))
    return outs


def run_buffer_edge(item):
    """Runs of removed and added lines exactly as long as the line buffer (and one shorter): the i-th removed line is
    paired with the i-th added line (distance threshold 1) and the one differing word is emphasised; the buffer limit
    only matters for longer runs."""
    _, seed = item
    rng = engine.item_rng(seed)
    size = rng.choice([2, 3, 4, 8, 32])
    regex = r'\w+'
    subhunks, lens = [], []
    for n in (size, size - 1, size):
        if n < 1:
            continue
        ms = ['line%d common text before OLD%d and after' % (i, i) for i in range(n)]
        ps = ['line%d common text before NEW%d and after' % (i, i) for i in range(n)]
        subhunks.append((ms, ps))
        lens.append(n)
    res = run_subhunks(subhunks, regex, '1', extra={'--line-buffer-size': size})
    c = crash_outcome(res, ID)
    if c is not None:
        return [c]
    if res.rc != 0:
        return [inconclusive('exit %d' % res.rc)]
    groups = split_unified(res, subhunks)
    sets = {'family': ['buffer-edge'], 'regex': [regex], 'distance': ['1'], 'line_buffer_sizes': [str(size)]}
    if len(groups) != len(subhunks):
        return [inconclusive('rows of the buffer-edge sub-hunks could not be grouped', sets=sets)]
    outs = []
    counters = {'buffer_edge_lines': 0}
    for grp, (ms, ps), n in zip(groups, subhunks, lens):
        if len(grp) != 2 * n + 1:
            outs.append(inconclusive('unexpected number of rows for a run of %d+%d lines' % (n, n), sets=sets))
            continue
        for i, (info, text) in enumerate(zip(grp[:2 * n], ms + ps)):
            cells, ok = strip_trailing_fill(cell_classes(info), text)
            word = ('OLD%d' if i < n else 'NEW%d') % (i % n)
            em = ''.join(ch for ch, cl in cells if cl == 'emph') if ok else None
            if not ok or not paired(cells) or em.strip() != word:
                outs.append(violated('c06:buffer-edge:not-paired', 'in a run of %d removed and %d added lines with --line-buffer-size %d (threshold 1) line %d is not '
                                     'paired with its counterpart / does not emphasise the one differing word' % (n, n, size, i % n + 1), word, em, run=res, sets=sets))
                break
            counters['buffer_edge_lines'] += 1
    outs.append(held(sig=('buffer-edge', size), nontrivial=True, counters=counters, sets=sets))
    return outs


def floors(ctx, agg):
    p = []
    if agg.counters.get('subhunks', 0) < 14641:
        p.append('fewer sub-hunks checked than the small exhaustive space holds')
    if agg.counters.get('pairs_checked', 0) < 3000:
        p.append('fewer than 3000 rendered pairs checked')
    if agg.counters.get('pairs_with_emphasis', 0) < 1500:
        p.append('fewer than 1500 pairs rendered with emphasis')
    if agg.counters.get('single_run_pairs', 0) < 1000:
        p.append('fewer than 1000 single-run pairs checked')
    if agg.counters.get('sbs_shared_rows', 0) < 200:
        p.append('fewer than 200 shared rows seen in side-by-side view')
    return p
