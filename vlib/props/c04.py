"""C04 - text that is not diff/blame/grep output passes through byte-for-byte."""
import re

from .. import corpus, engine, gen, gitrepo, runner, term
from ..engine import held, inconclusive, violated, crash_outcome

ID = 'C04'
LEVEL = 'exploration'
RULE = ('text streams (real git log/status/branch/stash output, prose, compiler-like output, lines with embedded SGR of every '
        'form, CRLF, invalid UTF-8, over-long lines) free of construct-opening markers, alone / before the first diff / '
        'between a commit line and its diff in a log -p stream, under option sets of every mode; each pass-through line must '
        'occur in stdout as the identical byte string, once, in order, and on the correct side of the rendered sections; '
        'distinct = (stream shape, line classes present, option classes); non-trivial = >= 3 pass-through lines')
ASSUMPTIONS = ['the set of construct openers is taken from the documentation of what delta renders (see DESIGN.md C04)',
               'the calling process of delta in the check is not git/rg, so grep-shaped and show-file text is not claimed']
CHUNK = 6
E = '\x1b'

OPENERS = ('commit ', 'diff ', '--- ', '+++ ', '@@', 'Submodule ', 'Binary files ', 'Only in ', '{"type":"', '{"data":',
           'rename from ', 'rename to ', 'copy from ', 'copy to ', 'deleted file mode ', 'new file mode ', '<<<<<<< ',
           '=======', '>>>>>>> ', '||||||| ', '\\ ')
# the shape of a `git blame` line as documented: hash [file] (author date time zone line) code
BLAMEISH = re.compile(r'^\^?[0-9a-f]{4,40} (?:[^(]+ )?\(.*\d{4}-\d\d-\d\d \d\d:\d\d:\d\d [-+]\d{4} +\d+\)')


DIFF_STAT = re.compile(r' ([^| ][^|]+[^| ]) +(\| +[0-9]+ .+)')


def is_opener(visible):
    return visible.startswith(OPENERS) or BLAMEISH.match(visible) is not None


def sgr_wrap(rng, text):
    styles = ['31', '1;32', '38;5;208', '38;2;1;2;3', '4', '7;36', '1', '2;33', '48;5;17', '0;33', '']
    if not text:
        return text
    r = rng.random()
    if r < 0.4:
        return E + '[' + rng.choice(styles) + 'm' + text + E + rng.choice(['[m', '[0m'])
    if r < 0.7 and len(text) > 3:
        k = rng.randrange(1, len(text))
        return text[:k] + E + '[' + rng.choice(styles) + 'm' + text[k:] + E + '[m'
    if r < 0.85:
        return E + '[' + rng.choice(styles) + 'm' + E + '[' + rng.choice(styles) + 'm' + text   # unbalanced
    return text + E + '[K'


PROSE = ['The quick brown fox', 'warning: unused variable `x`', '  --> src/main.rs:10:5', 'error[E0308]: mismatched types',
         'On branch main', 'Your branch is up to date with \'origin/main\'.', 'Changes not staged for commit:',
         '\tmodified:   src/main.rs', '  (use "git add <file>..." to update what will be committed)', 'nothing to commit',
         '* main 1234567 [origin/main] message', '  feature 89abcde ahead 2', 'stash@{0}: WIP on main: 1234567 msg',
         'Author: A U Thor <a@example.com>', 'Date:   Mon Jan 1 00:00:00 2024 +0000', '    Fix the thing (#123)', '',
         '    - bullet', '    + plus in message', 'Merge: 1234567 89abcde', 'src/main.rs:10: looks like grep but caller is not grep',
         '1 file changed, 2 insertions(+)', ' src/a.rs | 2 +-', 'index 123..456', 'similarity index 90%', 'x' * 30,
         'tab\tseparated\tvalues', '   leading and trailing   ', '日本語のテキスト', 'emoji 😀 text', 'naïve café', '|/ graph', '* | 1234567 msg',
         '- dash start', '+ plus start', '-not a diff', '+not a diff', ' space start', '#!/bin/sh', '--', '++', '---', '+++', '@ at',
         '=====', '<<<<<<<', '>>>>>>>', 'commitment', 'different', 'Binaryfiles', '}{',
         # lines that only mean something after a 'diff' line
         'old mode 100644', 'new mode 100755 was set by the installer', 'old mode of operation',
         # JSON of other programs (rg --json records start with {"type":" or {"data":)
         '{"level":"info","type":"end","msg":"job done"}', '{"a":1}', '{ not json', '{"msg":"x","type":"summary"}', '{"level":"warn","type":"begin"}', '{}',
         '\x1b[35msrc/x.rs\x1b[m\x1b[36m:\x1b[m\x1b[32m12\x1b[m\x1b[36m:\x1b[m coloured like a grep hit, but the caller is not grep',
         '\x1b[35mMakefile\x1b[m\x1b[36m-\x1b[mcontext \x1b[1;31mmatch\x1b[m text', '\x1b[35mnotes\x1b[m\x1b[36m=\x1b[m\x1b[32m3\x1b[m\x1b[36m=\x1b[mheader',
         '1234567 fix the thing', 'abcdef0 (HEAD -> main, origin/main) Merge branch', 'deadbeef HEAD@{0}: commit: message', 'cafe babe and other hex words',
         '^1234567 (looks like a boundary commit but is prose)', 'fa11 (Ann 2020 1) not a blame line']


def text_line(rng):
    r = rng.random()
    if r < 0.55:
        t = rng.choice(PROSE)
    else:
        t = gen.rand_text(rng, 70)
    if r >= 0.88:
        # text that contains what would start a construct at the beginning of a line (a quoted blame or grep line, a diff
        # line cited in a commit message, ...): it does not *begin* with the marker
        inner = rng.choice(['ea82f2d0 (Dan Davison 2020-01-02 03:04:05 +0000 7) let x = 1;', '^61f180c8 src/main.rs (Ann Lee 2021-11-12 13:14:15 -0500 120) fn main() {',
                            'deadbeef (Ann Lee 2020-01-02 03:04:05 +0000 7)', 'diff --git a/src/x.rs b/src/x.rs', 'commit 0123456789abcdef0123456789abcdef01234567',
                            '@@ -1,2 +1,2 @@ fn f()', 'src/main.rs:12:    let y = 2;', 'Submodule lib 1234567..89abcde:', 'Binary files a/x.png and b/x.png differ',
                            '{"type":"match","data":{"path":{"text":"a.rs"},"lines":{"text":"x\\n"},"line_number":1,"absolute_offset":0,"submatches":[]}}',
                            '--- a/file.txt', '+++ b/file.txt', 'rename from old/name.rs', '++<<<<<<< HEAD'])
        t = rng.choice(['> ', '| ', '# ', 'see: ', '* ', '>> ', 'cf. ', 'as in "']) + inner
    if is_opener(t):
        t = 'x' + t
    cls = 'plain' if r < 0.88 else 'embedded-lookalike'
    if rng.random() < 0.3 and t:
        t2 = sgr_wrap(rng, t)
        if not is_opener(term.strip_escapes(t2)):
            t = t2
            cls = 'sgr' if cls == 'plain' else cls + '-sgr'
    return t, cls


def plan(ctx):
    items = []
    for i in range(ctx.n(6000, 100000)):
        items.append(('gen', engine.stable_hash((ctx.seed, 'c04', i))))
    for i in range(ctx.n(400, 6000)):
        items.append(('real', engine.stable_hash((ctx.seed, 'c04r', i))))
    return items


def options(rng):
    o = {'--paging': 'never'}
    cls = []
    for name, p in (('--side-by-side', 0.25), ('--line-numbers', 0.3), ('--navigate', 0.15), ('--hyperlinks', 0.2),
                    ('--color-only', 0.08), ('--diff-so-fancy', 0.08), ('--diff-highlight', 0.08), ('--raw', 0.05),
                    ('--keep-plus-minus-markers', 0.15)):
        if rng.random() < p:
            o[name] = True
            cls.append(name.lstrip('-'))
    if o.get('--hyperlinks') and rng.random() < 0.6:
        # (hash-like words of passed-through lines are only linked on a terminal: through a pipe the bytes stay as they are)
        o['--hyperlinks-commit-link-format'] = 'https://example.com/c/{commit}'
        cls.append('commit-link-format')
    if rng.random() < 0.3:
        o['--syntax-theme'] = rng.choice(gen.THEMES_DARK + gen.THEMES_LIGHT + ['none'])
    if rng.random() < 0.3:
        o['--width'] = rng.choice([40, 80, 120])
    if rng.random() < 0.3:
        o['--tabs'] = rng.choice([0, 2, 4])
        cls.append('tabs')
    if rng.random() < 0.2:
        o['--commit-style'] = rng.choice(['raw', 'bold yellow'])
        o['--commit-decoration-style'] = rng.choice(['', 'box', 'ul'])
        cls.append('commit-style')
    return o, cls


def run_item(item):
    kind, seed = item
    rng = engine.item_rng(seed)
    opts, cls = options(rng)
    mll = 3000
    if rng.random() < 0.2:
        mll = rng.choice([100, 200, 0])       # (0: no truncation at all, whatever the view)
        opts['--max-line-length'] = mll
        cls.append('maxlen' if mll else 'maxlen-0')
    env = {}
    git_prefix = None
    if rng.random() < 0.15:
        opts['--relative-paths'] = True
        cls.append('relative-paths')
        if rng.random() < 0.6:
            # git starts its pager in the subdirectory the user is in and says so in GIT_PREFIX
            git_prefix = rng.choice(['src/', 'a/b/', 'docs/'])
            env['GIT_PREFIX'] = git_prefix
            cls.append('git-prefix')
    segs = []   # ('text', bytes_line, cls) | ('anchor', bytes_to_find) | ('raw', line)
    in_lines = []
    shape = []
    if kind == 'real':
        repo = gitrepo.Repo(rng)
        try:
            repo.seed_files()
            repo.random_edits(allow_special=False)
            which = rng.choice(['status', 'log', 'branch', 'log-graph', 'log-stat-only', 'shortlog'])
            if which == 'status':
                out = repo.git('-c', 'color.status=always' if rng.random() < 0.5 else 'color.status=never', 'status')
            elif which == 'log':
                repo.commit('second change\n\nbody line one\n\n    indented body')
                out = repo.git('log', '--color=always' if rng.random() < 0.5 else '--color=never')
            elif which == 'branch':
                repo.git('branch', 'feature/x')
                out = repo.git('branch', '-vv', '--color=always' if rng.random() < 0.5 else '--color=never')
            elif which == 'log-graph':
                repo.commit('second')
                out = repo.git('log', '--graph', '--oneline', '--color=always' if rng.random() < 0.5 else '--color=never')
            elif which == 'log-stat-only':
                repo.commit('second')
                out = repo.git('log', '--stat', '--format=%an did %s', '--color=never')
            else:
                repo.commit('second')
                out = repo.git('shortlog', 'HEAD')
        finally:
            repo.remove()
        shape.append('real:' + which)
        for l in out.decode('utf-8', 'replace').split('\n')[:-1]:
            vis = term.strip_escapes(l)
            if is_opener(vis):
                # a construct opener (e.g. "commit <hash>"): rendered by delta, used as an anchor only
                in_lines.append(l.encode())
                segs.append(('raw', l))
                continue
            in_lines.append(l.encode())
            segs.append(('text', l.encode(), 'real'))
    else:
        layout = rng.choice(['text-only', 'text-then-diff', 'log-p', 'log-p', 'text-only', 'log-oneline-p', 'plain-diff-then-text'])
        shape.append(layout)

        def add_text(n):
            for _ in range(n):
                t, c = text_line(rng)
                b = t.encode('utf-8')
                r = rng.random()
                if r < 0.05:
                    b = b + b'\r'
                    c = 'crlf'
                    if rng.random() < 0.4 and b'\x1b' not in b:
                        # coloured by its producer, the closing sequence after the CR (as git does for CRLF files): only the
                        # CR goes
                        b = b'\x1b[33m' + b[:-1] + b'\r\x1b[m'
                        c = 'crlf-coloured'
                elif r < 0.09:
                    b = b[:len(b) // 2] + rng.choice([b'\xff', b'\xc3', b'\xe2\x82']) + b[len(b) // 2:]
                    c = 'invalid-utf8'
                elif r < 0.13 and not b.startswith(b'{'):     # (lines starting with '{' are exempt from truncation: rg --json)
                    b = b + b' ' + ('long' * 80).encode()
                    c = 'long'
                if is_opener(term.strip_escapes(b.decode('utf-8', 'replace'))):
                    b = b'x' + b
                in_lines.append(b)
                segs.append(('text', b, c))

        def add_diff(k):
            d = gen.gen_diff(rng, nsections=rng.randint(1, 2), kinds=['modified', 'added', 'renamed_changed', 'mode_changed'],
                             maxlen=40, simple_paths=True)
            for j, s in enumerate(d.sections):
                s.new_path = 'uniq%d_%d_%s' % (k, j, s.new_path.replace('/', '_'))
                if s.kind not in ('renamed_changed',):
                    s.old_path = s.new_path
            last = None
            if d.sections[-1].hunks and d.sections[-1].hunks[-1].lines and d.sections[-1].hunks[-1].lines[-1][0] in '-+ ':
                # the last line of the diff is recognisable: it must be out before whatever follows the diff (a commit line
                # may follow directly - git log -p --format=tformat:... - while removed/added lines are still buffered)
                h = d.sections[-1].hunks[-1]
                last = 'zq%dlast' % k
                h.lines[-1] = (h.lines[-1][0], last)
            for l in d.lines():
                in_lines.append(l.encode())
            segs.append(('anchor', d.sections[0].new_path.encode()))
            if last:
                segs.append(('anchor', last.encode()))
            if rng.random() < 0.12:
                # a removed submodule closes the diff: its '-Subproject commit' line is held back until delta knows that no
                # '+' counterpart follows, i.e. until the line after it (the next commit line, message text) has been read
                sha = ''.join(rng.choice('0123456789abcdef') for _ in range(40))
                for l in ['diff --git a/sub%d b/sub%d' % (k, k), 'deleted file mode 160000', 'index 1234567..0000000', '--- a/sub%d' % k, '+++ /dev/null',
                          '@@ -1 +0,0 @@', '-Subproject commit ' + sha]:
                    in_lines.append(l.encode())
                segs.append(('anchor', b'Subproject'))      # (the hash itself may be wrapped over several rows in a narrow panel)
        def add_hunkless_section(k):
            # a file section without a hunk ends the diff of the commit: whatever follows it is not part of its header
            nm = 'tail%d_%s' % (k, rng.choice(['a.rs', 'b.txt', 'img.png']))
            which = rng.choice(['rename', 'mode', 'binary', 'empty-new', 'copy'])
            if which == 'rename':
                ls = ['diff --git a/old_%s b/%s' % (nm, nm), 'similarity index 100%', 'rename from old_%s' % nm, 'rename to %s' % nm]
            elif which == 'copy':
                ls = ['diff --git a/old_%s b/%s' % (nm, nm), 'similarity index 100%', 'copy from old_%s' % nm, 'copy to %s' % nm]
            elif which == 'mode':
                ls = ['diff --git a/%s b/%s' % (nm, nm), 'old mode 100644', 'new mode 100755']
            elif which == 'binary':
                ls = ['diff --git a/%s b/%s' % (nm, nm), 'index 1111111..2222222 100644', 'Binary files a/%s and b/%s differ' % (nm, nm)]
            else:
                ls = ['diff --git a/%s b/%s' % (nm, nm), 'new file mode 100644', 'index 0000000..e69de29']
            for l in ls:
                in_lines.append(l.encode())
            segs.append(('anchor', nm.encode()))
            shape.append('hunkless-tail:' + which)

        if layout == 'plain-diff-then-text':
            # what a script prints: diff -u a b; echo; echo "2 files differ".  The hunks are complete (their line counts say
            # so): the empty line and the text after them are not lines of the diff
            add_text(rng.randint(0, 3))
            d = gen.gen_diff(rng, fmt='plain', nsections=rng.randint(1, 2), kinds=['modified'], maxlen=40, simple_paths=True)
            for j, s_ in enumerate(d.sections):
                s_.new_path = s_.old_path = 'plainuniq%d_%s' % (j, s_.new_path.replace('/', '_'))
                for h in s_.hunks:
                    h.lines = [(kk, t) for kk, t in h.lines if kk != '\\'] or [(' ', 'x')]
                    h.omit_counts = False
            d.sections[-1].hunks[-1].lines[-1] = (d.sections[-1].hunks[-1].lines[-1][0], 'zqplainlast')
            for l in d.lines():
                in_lines.append(l.encode())
            segs.append(('anchor', d.sections[0].new_path.encode()))
            segs.append(('anchor', b'zqplainlast'))
            in_lines.append(b'')
            segs.append(('text', b'', 'plain'))
            for _ in range(rng.randint(1, 3)):
                t = rng.choice(['2 files differ', 'done.', 'summary: 1 hunk', 'Only changes in comments', 'exit status 1', 'see also the log'])
                in_lines.append(t.encode())
                segs.append(('text', t.encode(), 'plain'))
        elif layout == 'log-oneline-p':
            # git log --oneline -p (or any --format without a blank line): 'hash subject' directly followed by the diff, the
            # next 'hash subject' directly after the last line of that diff
            for k in range(rng.randint(2, 4)):
                subj = ('%07x ' % rng.randrange(1 << 28)) + rng.choice(PROSE)[:50]
                if is_opener(subj):
                    subj = 'x' + subj
                in_lines.append(subj.encode())
                segs.append(('text', subj.encode(), 'oneline-subject'))
                add_diff(k)
                tail_hunkless = rng.random() < 0.6
                if tail_hunkless:
                    add_hunkless_section(k)
            # (what follows a diff directly is only told from its lines by how it begins: a line starting with a blank, '+',
            # '-' or '\\' after a hunk, a blank or header-like line after a section without hunks *are* lines of that diff for
            # any reader. The lines that close this stream are of the unambiguous kind again.)
            nsub = rng.randint(0, 2)
            for _ in range(nsub):
                subj = ('%07x ' % rng.randrange(1 << 28)) + rng.choice(PROSE)[:50]
                in_lines.append(subj.encode())
                segs.append(('text', subj.encode(), 'oneline-subject'))
            if tail_hunkless and nsub:
                # ... and once a line that is no header line has ended a section without hunks, nothing that follows is one
                for _ in range(rng.randint(1, 4)):
                    t = rng.choice(['', 'index 12..34', 'Hello_World', 'Files changed: 2', '  indented text', '+ plus text', '- minus text', 'rename from here to there',
                                    'literal 42', 'Only in my opinion'])
                    in_lines.append(t.encode())
                    segs.append(('text', t.encode(), 'after-section-end'))
        elif layout == 'text-only':
            add_text(rng.randint(1, 25))
        elif layout == 'text-then-diff':
            add_text(rng.randint(1, 12))
            add_diff(0)
        else:
            if rng.random() < 0.5:
                add_text(rng.randint(0, 4))
            for k in range(rng.randint(1, 3)):
                h = ''.join(rng.choice('0123456789abcdef') for _ in range(40))
                cl = 'commit ' + h
                in_lines.append(cl.encode())
                segs.append(('anchor', h.encode()))
                add_text(rng.randint(1, 8))
                add_diff(k)
    data = b'\n'.join(in_lines) + b'\n'
    pkw = {}
    r5 = engine.item_rng(engine.stable_hash((seed, 'c04-parent')))
    if kind != 'real' and r5.random() < 0.2:
        # the git command whose pager delta is: revisions may be written with colons that do not separate a revision from
        # a path (git show ':/fix typo' names a commit by its message) - the output is a commit all the same
        pkw['parent_argv'] = r5.choice([['git', 'show', ':/fix typo'], ['git', 'show', 'HEAD@{2020-01-01 10:00:00}'], ['git', 'show', 'HEAD^{/fix: the parser}'],
                                        ['git', 'log', '-p'], ['git', 'show', '--format=%s', ':/second'], ['git', 'show', 'main@{1 week ago 10:30}']])
        cls.append('parent:' + ' '.join(pkw['parent_argv'][1:3]))
    res = runner.run_delta(gen.to_args(opts), data, env=env, **pkw)
    c = crash_outcome(res, ID)
    if c is not None:
        return c
    if res.rc != 0:
        return inconclusive('exit %d: %s' % (res.rc, res.err[:120]))
    out_lines = res.out.split(b'\n')
    pos = 0
    counters = {'passthrough_lines': 0, 'passthrough_bytes': 0, 'anchors': 0}
    classes = set()
    sets = {'shapes': shape, 'option_classes': cls}
    for seg in segs:
        if seg[0] == 'raw':
            continue
        if seg[0] == 'anchor':
            k = pos
            while k < len(out_lines) and seg[1] not in out_lines[k]:
                k += 1
            if k >= len(out_lines):
                return violated('c04:anchor-missing', 'a rendered section that follows pass-through text was not found after it '
                                '(text reordered around a section, or section missing)', seg[1].decode(), None, run=res,
                                counters=counters, sets=sets)
            pos = k + 1
            counters['anchors'] += 1
            continue
        _, b, cl = seg
        m = DIFF_STAT.search(term.strip_escapes(b.decode('utf-8', 'replace'))) if git_prefix else None
        if m and not (pos < len(out_lines) and matches(out_lines[pos], expected_bytes(b, cl, mll), b, cl, mll)):
            # a diff-stat line: its path is rewritten relative to the subdirectory (documented behaviour); the counts stay
            suffix = ' '.join(m.group(2).split())[:8]     # '| N +-..': the line may also be truncated at the maximum line length
            k = pos
            while k < len(out_lines) and suffix not in ' '.join(term.strip_escapes(out_lines[k].decode('utf-8', 'replace')).split()):
                k += 1
            if k >= len(out_lines):
                return violated('c04:diff-stat-line-missing', 'a diff-stat line has no counterpart in the output', repr(b)[:200], None, run=res,
                                counters=counters, sets=sets)
            pos = k + 1
            continue
        exp = expected_bytes(b, cl, mll)
        k = pos
        found = -1
        while k < len(out_lines):
            if matches(out_lines[k], exp, b, cl, mll):
                found = k
                break
            # stop searching at the next anchor-like rendered line? no: anchors are located afterwards
            k += 1
        if found < 0 or found != pos and any(matches_any_text(out_lines[j]) for j in ()):  # placeholder for clarity
            pass
        if found < 0:
            return violated('c04:line-altered:' + cl, 'a pass-through line does not appear byte-for-byte at its place in the output',
                            repr(exp)[:300], repr(out_lines[pos])[:300] if pos < len(out_lines) else 'end of output', run=res,
                            counters=counters, sets=sets)
        if found != pos:
            # lines were skipped: they must be delta's own decoration of a rendered construct (blank lines / rules),
            # never another pass-through line (order) - which the in-order search guarantees - but also not text
            skipped = out_lines[pos:found]
            if kind != 'real' and any(s.strip() and not is_decoration(s) for s in skipped) and not prev_was_anchor(segs, seg):
                return violated('c04:extra-output:' + cl, 'unexpected output between two consecutive pass-through lines',
                                repr(exp)[:200], repr(skipped[:3])[:300], run=res, counters=counters, sets=sets)
        pos = found + 1
        counters['passthrough_lines'] += 1
        counters['passthrough_bytes'] += len(b)
        classes.add(cl)
    sets['line_classes'] = sorted(classes)
    if kind != 'real' and shape and shape[0] == 'text-only':
        # nothing but pass-through text went in: nothing may follow the last line either
        tail = [l for l in out_lines[pos:] if l.strip()]
        if tail:
            return violated('c04:extra-output:tail', 'output continues after the last pass-through line of a text-only input', 'end of output',
                            repr(tail[:3])[:300], run=res, counters=counters, sets=sets)
        counters['tails_checked'] = 1
    return held(sig=(tuple(shape), tuple(sorted(classes)), tuple(sorted(cls))), nontrivial=counters['passthrough_lines'] >= 3,
                counters=counters, sets=sets,
                sample={'shape': shape, 'args': gen.to_args(opts)[2:10], 'input_head': [l.decode('utf-8', 'replace') for l in in_lines[:5]]})


def prev_was_anchor(segs, seg):
    i = segs.index(seg)
    return i > 0 and segs[i - 1][0] in ('anchor', 'raw')


def is_decoration(line):
    vis = term.strip_escapes(line.decode('utf-8', 'replace'))
    return all(ch in '─│┌┐└┘├┤┬┴┼━┃┏┓┗┛═ ' for ch in vis)


def matches_any_text(line):
    return False


def expected_bytes(b, cl, mll):
    e = b
    if e.endswith(b'\r'):
        e = e[:-1]
    if cl == 'crlf-coloured':
        e = e.replace(b'\r\x1b[m', b'\x1b[m')
    if cl == 'invalid-utf8':
        e = e.decode('utf-8', 'replace').encode('utf-8')
    return e


def matches(out_line, exp, b, cl, mll):
    if out_line == exp:
        return True
    if mll and len(exp) > mll:
        # truncation beyond the maximum line length is permitted: visible prefix + mark
        vis_o = term.strip_escapes(out_line.decode('utf-8', 'replace')).rstrip()
        vis_e = term.strip_escapes(exp.decode('utf-8', 'replace'))
        if vis_o.endswith('→') and vis_e.startswith(vis_o[:-1].rstrip(' ')) and len(vis_o) >= 10:
            return True
    if cl == 'invalid-utf8':
        # lossy replacement may merge or split replacement characters differently from Python's decoder
        a = out_line.decode('utf-8', 'replace').replace('�', '')
        bb = exp.decode('utf-8', 'replace').replace('�', '')
        if a == bb and (not mll or len(exp) <= mll):
            return True
        if mll and len(exp) > mll:
            return False
    return False


def floors(ctx, agg):
    p = []
    if agg.counters.get('passthrough_lines', 0) < 10000:
        p.append('fewer than 10000 pass-through lines compared')
    need = {'plain', 'sgr', 'crlf', 'invalid-utf8', 'long', 'real'}
    if not need <= set(agg.sets.get('line_classes', ())):
        p.append('line classes missing: %s' % sorted(need - set(agg.sets.get('line_classes', ()))))
    return p
