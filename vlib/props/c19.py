"""C19 - hyperlinks: well-formed, transparent, right target."""
import os
import re

from .. import corpus, engine, gen, rows, runner, term, workload
from ..engine import held, inconclusive, violated, crash_outcome

ID = 'C19'
LEVEL = 'exploration'
RULE = ('pairs of runs (hyperlinks off / on) over diffs (unified and side-by-side, with line numbers), logs with commit '
        'lines, grep and blame inputs, random link templates, pipe and pty; (1) OSC-8-stripped output byte-identical, '
        '(2) links closed on their line, (3) file link = template(abs path of the section file, displayed number), '
        '(4) commit link = template(wrapped hash); distinct = (kind, view, option classes, templates, mode); '
        'non-trivial = at least one link observed')
ASSUMPTIONS = ['delta runs in a scratch directory outside any git repository, so absolute path = cwd + path in the diff']
CHUNK = 6

FILE_FMTS = ['file://{path}', 'vscode://file/{path}:{line}', 'x://{host}/{path}#{line}', 'idea://open?file={path}&line={line}',
             '{path}', 'L{line}@{path}']
COMMIT_FMTS = ['https://example.com/c/{commit}', 'c://{commit}/x/{commit}', 'https://github.com/a/b/commit/{commit}']


REMOTES = [('https://github.com/acme/widget.git', 'https://github.com/acme/widget/commit/{commit}'),
           ('git@github.com:acme/widget.git', 'https://github.com/acme/widget/commit/{commit}'),
           ('https://github.com/acme/wid.get', 'https://github.com/acme/wid.get/commit/{commit}'),
           ('https://github.com/jesseduffield/lazygit', 'https://github.com/jesseduffield/lazygit/commit/{commit}'),
           ('git@github.com:go-git/go-git', 'https://github.com/go-git/go-git/commit/{commit}'),
           ('https://github.com/magit/magit.git', 'https://github.com/magit/magit/commit/{commit}'),
           ('ssh://git@github.com/libgit2/libgit2.git', 'https://github.com/libgit2/libgit2/commit/{commit}'),
           ('https://gitlab.com/grp/xgit', 'https://gitlab.com/grp/xgit/-/commit/{commit}'),
           ('https://gitlab.com/grp/sub/proj.git', 'https://gitlab.com/grp/sub/proj/-/commit/{commit}'),
           ('git@gitlab.com:grp/proj.git', 'https://gitlab.com/grp/proj/-/commit/{commit}'),
           ('https://git.sr.ht/~someone/thing', 'https://git.sr.ht/~someone/thing/commit/{commit}'),
           ('git@codeberg.org:org/repo.git', 'https://codeberg.org/org/repo/commit/{commit}')]


def make_repo(url):
    """A scratch repository whose origin is `url`; returns its directory (delta runs inside it)."""
    import subprocess
    import tempfile
    d = tempfile.mkdtemp(prefix='c19repo', dir=os.path.join(runner.workdir(), 'tmp'))
    env = dict(os.environ, HOME=d, GIT_CONFIG_NOSYSTEM='1')
    subprocess.run(['git', 'init', '-q', d], env=env, stdout=subprocess.DEVNULL, stderr=subprocess.DEVNULL)
    subprocess.run(['git', '-C', d, 'remote', 'add', 'origin', url], env=env, stdout=subprocess.DEVNULL, stderr=subprocess.DEVNULL)
    return d


def plan(ctx):
    n = ctx.n(4000, 60000)
    return [('case', engine.stable_hash((ctx.seed, 'c19', i))) for i in range(n)] + \
        [('two-files', engine.stable_hash((ctx.seed, 'c19f', i))) for i in range(ctx.n(60, 800))]


def run_two_files(seed):
    """delta A B (the machine's git and diff do the comparison): links name the two files that were given, wherever delta is
    started from and however the files were named (relative, absolute, with '..')."""
    import shutil
    import tempfile
    rng = engine.item_rng(seed)
    base = tempfile.mkdtemp(prefix='c19two', dir=os.path.join(runner.workdir(), 'tmp'))
    try:
        os.makedirs(os.path.join(base, 'one', 'sub'))
        os.makedirs(os.path.join(base, 'two'))
        os.makedirs(os.path.join(base, 'elsewhere'))
        fa = os.path.join(base, 'one', 'sub', rng.choice(['a.rs', 'old name.txt', 'x.py']))
        fb = os.path.join(base, 'two', rng.choice(['b.rs', 'new name.txt', 'y.py']))
        la = ['line %d %s' % (i, gen.rand_text(rng, 20, allow_empty=False, tabs_ok=False)) for i in range(rng.randint(3, 9))]
        lb = list(la)
        lb[rng.randrange(len(lb))] = 'changed ' + gen.rand_text(rng, 15, allow_empty=False, tabs_ok=False)
        open(fa, 'w').write('\n'.join(la) + '\n')
        open(fb, 'w').write('\n'.join(lb) + '\n')
        how = rng.choice(['absolute', 'absolute', 'relative', 'dotdot', 'mixed', 'directories', 'backup-tree'])
        if how == 'backup-tree':
            # a backup that replicates absolute paths: the old file's path ends with the whole path of the new one
            os.unlink(fa)
            fa = os.path.join(base, 'backup') + fb
            os.makedirs(os.path.dirname(fa))
            open(fa, 'w').write('\n'.join(la) + '\n')
        if how == 'directories':
            # two directories: the files below them are compared (one here; the same name on both sides)
            os.unlink(fb)
            fb = os.path.join(base, 'two', os.path.basename(fa))
            cwd, a, b = os.path.join(base, 'elsewhere'), os.path.join(base, 'one', 'sub'), os.path.join(base, 'two')
            open(fb, 'w').write('\n'.join(lb) + '\n')
        elif how in ('absolute', 'backup-tree'):
            cwd, a, b = os.path.join(base, 'elsewhere'), fa, fb
        elif how == 'relative':
            cwd, a, b = base, os.path.relpath(fa, base), os.path.relpath(fb, base)
        elif how == 'dotdot':
            cwd = os.path.join(base, 'elsewhere')
            a, b = os.path.relpath(fa, cwd), os.path.relpath(fb, cwd)
        else:
            cwd, a, b = os.path.join(base, 'one'), os.path.relpath(fa, os.path.join(base, 'one')), fb
        args = ['--paging', 'never', '--no-gitconfig', '--hyperlinks'] + rng.choice([[], ['--line-numbers'], ['--side-by-side'], ['--hunk-header-style', 'file line-number syntax']])
        res = runner.run_delta(args + [a, b], b'', cwd=cwd, stdin_is_none=True, path_prefix=None)
        sets = {'kinds': ['two-files'], 'views': ['two-files:' + how], 'option_classes': ['two-files'], 'mode': ['pipe']}
        c = crash_outcome(res, ID)
        if c is not None:
            return c
        if res.rc != 1:
            return inconclusive('delta a b exited %s: %s' % (res.rc, res.err[:100]), sets=sets)
        targets = []
        for r in term.decode(res.out.decode('utf-8', 'replace')):
            for uri, text in r.links:
                if uri.startswith('file://'):
                    pth = uri[len('file://'):]
                    pth = pth[pth.index('/'):] if not pth.startswith('/') else pth
                    targets.append((norm(pth.split(':')[0]), text))
        if not targets:
            return violated('c19:two-files:no-links', 'delta --hyperlinks a b wrote no file link at all', 'links', 'none', run=res, sets=sets)
        wrong = [(t, x) for t, x in targets if t not in (norm(fa), norm(fb))]
        if not wrong and how in ('absolute', 'backup-tree', 'directories'):
            # which of the two: a link whose text is a path (git names absolute paths without the leading slash) leads to
            # that path, a linked line number to the new file
            for t, x in targets:
                x = x.strip()
                if x.isdigit():
                    if t != norm(fb):
                        wrong.append((t, x))
                elif '/' in x and norm('/' + x) in (norm(fa), norm(fb)) and t != norm('/' + x):
                    wrong.append((t, x))
        if wrong:
            return violated('c19:two-files:target:' + how, 'delta --hyperlinks %s %s (started in %s): a file link names neither of the two files' % (a, b, cwd),
                            [norm(fa), norm(fb)], wrong[:3], run=res, sets=sets)
        return held(sig=('two-files', how, tuple(args[4:])), nontrivial=True, counters={'two_file_links': len(targets), 'links_total': len(targets)}, sets=sets)
    finally:
        shutil.rmtree(base, ignore_errors=True)


def norm(p):
    return os.path.normpath(p)


def run_item(item):
    kind_, seed = item
    if kind_ == 'two-files':
        return run_two_files(seed)
    rng = engine.item_rng(seed)
    r = rng.random()
    if r < 0.55:
        case = workload.diff_case(rng)
    elif r < 0.8:
        case = workload.log_case(rng)
    elif r < 0.9:
        case = workload.grep_case(rng)
    else:
        case = workload.blame_case(rng)
    opts = dict(case['opts'])
    if case['kind'] in ('diff', 'log'):
        opts['--line-numbers'] = True
        if rng.random() < 0.5:
            opts['--hunk-header-style'] = gen.TAGS['hh'] + ' ' + rng.choice(['file line-number', 'line-number', 'file'])
        opts.pop('--file-style', None) if opts.get('--file-style') in ('omit', 'raw') else None
        opts.setdefault('--file-style', gen.TAGS['file'])
    xf = case['kind'] != 'blame' and rng.random() < 0.25
    if xf:
        # displayed names are rewritten; link targets must still be the real files
        opts['--file-transformation'] = rng.choice(['s,^,TR~,', 's,^([^/]*)/,TR~$1/,', 's,^(.),TR~$1,'])
    env = {}
    prefix = ''
    if case['kind'] in ('diff', 'log') and rng.random() < 0.25:
        # git ran delta from a subdirectory (GIT_PREFIX) and the user asked for paths relative to it: names are
        # displayed relative to that directory, the links must still name the same absolute files
        opts['--relative-paths'] = True
        prefix = rng.choice(['src/', 'a/b/', 'docs/'])
        env['GIT_PREFIX'] = prefix
        if case['kind'] == 'log' and rng.random() < 0.7:
            k = next((i for i, l in enumerate(case['lines']) if l.startswith('diff ')), len(case['lines']))
            stat = corpus.diffstat_lines(rng, [s_.new_path for s_ in case['diff'].sections])
            case['lines'] = case['lines'][:k] + stat + case['lines'][k:]
    headerless = False
    if case['kind'] == 'diff' and rng.random() < 0.1:
        # a patch fragment: hunks without any diff / --- / +++ line before them (no file is named)
        k = next((i for i, l in enumerate(case['lines']) if l.startswith('@@')), None)
        if k and sum(1 for l in case['lines'][:k] if l.startswith('diff ')) == 1 and \
                not any(l.startswith(('--- ', '+++ ')) for l in case['lines'][k:] if not l.startswith(('--- a/', '+++ b/', '--- /dev', '+++ /dev'))):
            # (the first section is the one with that hunk; a removed line "-- x" would read as a file header in a fragment)
            case['lines'] = case['lines'][k:]
            headerless = True
    file_fmt = rng.choice(FILE_FMTS)
    commit_fmt = rng.choice(COMMIT_FMTS)
    repo_cwd = None
    if case['kind'] == 'log' and rng.random() < 0.25:
        # no commit link format given: it is derived from the URL of the repository's "origin" remote
        url, commit_fmt = rng.choice(REMOTES)
        repo_cwd = make_repo(url)
        if opts.get('--commit-style') in (None, 'raw', 'omit'):
            opts['--commit-style'] = gen.TAGS.get('commit', '#a0b0c0')      # commit lines are only linked when delta styles them
    if case['kind'] == 'log' and repo_cwd is None and rng.random() < 0.3:
        # the stream as git colours it for its pager, the commit line kept as it comes (raw) inside a decoration
        case['lines'] = corpus.git_colorize(case['lines'])
        case['lines'] = ['\x1b[33m' + l + '\x1b[m' if l.startswith('commit ') else l for l in case['lines']]
        opts['--commit-style'] = 'raw'
        opts['--commit-decoration-style'] = rng.choice(['bold yellow box ul', 'blue ul', 'box'])
        case['meta'] = dict(case['meta'])
        case['meta']['classes'] = list(case['meta']['classes']) + ['coloured-input-raw-commit-style']
    mode = 'pty' if rng.random() < 0.4 else 'pipe'
    size = (24, rng.choice([60, 80, 121, 200]))
    if mode == 'pty' and '--dark' not in opts and '--light' not in opts:
        opts['--dark'] = True
    data = workload.data_of(case)
    a = runner.run_delta(gen.to_args(opts), data, mode=mode, pty_size=size, env=env, cwd=repo_cwd, **workload.parent_kw(case))
    c = crash_outcome(a, ID)
    if c is not None:
        return c
    if a.rc != 0:
        return inconclusive('exit %d: %s' % (a.rc, a.err[:120]))
    hopts = dict(opts)
    hopts['--hyperlinks'] = True
    hopts['--hyperlinks-file-link-format'] = file_fmt
    if repo_cwd is None:
        hopts['--hyperlinks-commit-link-format'] = commit_fmt
    b = runner.run_delta(gen.to_args(hopts), data, mode=mode, pty_size=size, env=env, cwd=repo_cwd, **workload.parent_kw(case))
    if repo_cwd is not None:
        import shutil
        shutil.rmtree(repo_cwd, ignore_errors=True)
    c = crash_outcome(b, ID)
    if c is not None:
        c['executions'] = 2
        return c
    counters = {'links': 0, 'file_links': 0, 'line_links': 0, 'commit_links': 0, 'pairs': 1}
    sets = {'kinds': [case['kind']], 'views': [case['view']], 'option_classes': case['meta']['classes'] + (['file-transformation'] if xf else []) + (['relative-paths+GIT_PREFIX'] if prefix else []) + (['remote-derived-commit-links'] if repo_cwd else []) + (['headerless-hunks'] if headerless else []), 'mode': [mode],
            'file_fmt': [file_fmt]}

    def bad(key, what, exp=None, obs=None):
        o = violated('c19:' + key, what, exp, obs, run=b, counters=counters, sets=sets)
        o['executions'] = 2
        return o
    stripped = term.strip_osc8(b.out)
    if stripped != a.out:
        pos = 0
        while pos < min(len(stripped), len(a.out)) and stripped[pos] == a.out[pos]:
            pos += 1
        return bad('not-transparent:' + case['view'], 'output with OSC 8 sequences removed differs from the output without hyperlinks '
                   '(first difference at byte %d)' % pos, a.out[max(0, pos - 120):pos + 120].decode('utf-8', 'replace'),
                   stripped[max(0, pos - 120):pos + 120].decode('utf-8', 'replace'))
    rws = term.decode(b.out)
    for i, rw in enumerate(rws):
        if rw.malformed:
            return bad('malformed', 'row %d: %s' % (i, rw.malformed[0]))
        if rw.end_link is not None:
            return bad('link-open', 'row %d: hyperlink not closed on its line' % i, obs=rw.text()[:100])
    cwd = b.cwd
    host = None
    # targets
    if case['kind'] in ('diff', 'log'):
        d = case['diff']
        sec = 0 if headerless else -1
        skip_first = headerless
        for rw in rws:
            info = rows.classify(rw)
            if info.kind == 'file':
                sec += 1
            for uri, text in rw.links:
                counters['links'] += 1
                t = text.strip()
                if xf and info.kind in ('file', 'hunk'):
                    counters['transformed_names'] = counters.get('transformed_names', 0) + (1 if 'TR~' in t else 0)
                    t = t.replace('TR~', '', 1)
                if prefix and info.kind == 'text' and re.search(r'\| +\d+ ', rw.text()) and not re.fullmatch(r'[0-9a-f]{7,40}', t):
                    # a diff-stat line under --relative-paths: the path is shown relative to the user's directory and the link
                    # names that very file
                    exp = file_fmt.replace('{path}', norm(os.path.join(cwd, prefix, t))).replace('{line}', '')
                    if '{host}' in exp:
                        import socket
                        exp = exp.replace('{host}', socket.gethostname())
                    if uri != exp:
                        return bad('file-target:diffstat', 'link of a diff-stat line does not name the file shown (relative to %s)' % prefix, exp, uri)
                    counters['file_links'] += 1
                    continue
                if re.fullmatch(r'[0-9a-f]{7,40}', t) and re.search('[a-f]', t) and info.kind not in ('file', 'hunk', 'code'):
                    exp = commit_fmt.replace('{commit}', t)
                    if uri != exp:
                        return bad('commit-target', 'commit link target does not match the wrapped hash', exp, uri)
                    counters['commit_links'] += 1
                    continue
                if sec < 0 or sec >= len(d.sections) or (skip_first and sec == 0):
                    continue      # (links of a hunk for which no file was named are not judged: there is no file to point at)
                s = d.sections[sec]
                def disp(pth):
                    return os.path.relpath(pth, prefix.rstrip('/')) if prefix else pth
                paths = {disp(s.old_path), disp(s.new_path)}
                if d.fmt == 'plainr':
                    paths = {'old/' + s.old_path, 'new/' + s.new_path}
                line = ''
                shown_path = None
                if info.kind == 'file':
                    # label + path; the text of the link is the path (possibly with a display note)
                    cand = [p for p in paths if t == p or t.startswith(p + ' (')]
                    if not cand:
                        return bad('file-text', 'file link text is not a path of its section', sorted(paths), t)
                    shown_path = cand[0]
                elif info.kind == 'hunk':
                    m = re.fullmatch(r'(?:(.*?):)?(\d+)', t)
                    if m:
                        shown_path, line = m.group(1), m.group(2)
                    else:
                        shown_path = t
                    if shown_path is not None and shown_path not in paths:
                        return bad('hunk-header-path', 'path in hunk header is not the path of its file section', sorted(paths), shown_path)
                    if shown_path is None:
                        shown_path = disp(s.new_path if s.kind != 'deleted' else s.old_path)
                        if d.fmt == 'plainr':
                            shown_path = 'new/' + s.new_path
                elif info.kind == 'code':
                    if not re.fullmatch(r'\d+', t):
                        return bad('gutter-text', 'link in a code row does not wrap a line number', 'number', t)
                    line = t
                    shown_path = None  # path must be one of the section's paths
                    counters['line_links'] += 1
                else:
                    continue
                # a link that shows no path of its own (line numbers in the gutter, hunk-header number) names the file the
                # section is about: its new name, or the old one when the file was deleted
                cands = [shown_path] if shown_path is not None else [disp(s.new_path if s.kind != 'deleted' else s.old_path)]
                if d.fmt == 'plainr' and shown_path is None:
                    cands = ['new/' + s.new_path]
                lines_ok = [line]
                if info.kind == 'hunk' and line == '':
                    # no number is displayed beside the path: the link may carry the hunk's start line
                    lines_ok += [str(h.new_start) for h in s.hunks]
                exps = []
                for p in cands:
                    for ln in lines_ok:
                        u = file_fmt.replace('{path}', norm(os.path.join(cwd, prefix, p)))
                        u = u.replace('{line}', ln)
                        exps.append(u)
                uri_cmp = uri
                if '{host}' in file_fmt:
                    # host name is whatever the machine says; compare around it
                    import socket
                    exps = [e.replace('{host}', socket.gethostname()) for e in exps]
                if uri_cmp not in exps:
                    return bad('file-target:' + info.kind, 'file link target is not template(absolute path of the section file, displayed line)',
                               exps, uri)
                counters['file_links'] += 1
    elif case['kind'].startswith('grep'):
        model = case['model']
        allowed = {}
        for pth, hits in model:
            allowed[norm(os.path.join(cwd, pth))] = {str(h[0]) for h in hits} | {''}
        for rw in rws:
            for uri, text in rw.links:
                counters['links'] += 1
                ok = False
                shows_number = re.search(r':(\d+)', text) is not None
                for ap, lines_ok0 in allowed.items():
                    # a group header shows no number; its link is made with line 0 (nothing is displayed beside it)
                    lines_ok = lines_ok0 if shows_number else (lines_ok0 | {'0'})
                    for ln in lines_ok:
                        u = file_fmt.replace('{path}', ap).replace('{line}', ln)
                        if '{host}' in u:
                            import socket
                            u = u.replace('{host}', socket.gethostname())
                        if u == uri:
                            ok = True
                            # the line in the link must be the one displayed in the linked text, if one is displayed
                            m = re.search(r':(\d+)', text)
                            if m and ln not in ('', m.group(1)) and '{line}' in file_fmt:
                                return bad('grep-link-line', 'grep hit link carries line %s but shows %s' % (ln, m.group(1)), m.group(1), ln)
                if not ok:
                    return bad('grep-link-target', 'link in grep output does not point at a file of the result with one of its line numbers',
                               sorted(allowed)[:3], uri)
                counters['file_links'] += 1
    else:
        for rw in rws:
            for uri, text in rw.links:
                counters['links'] += 1
                t = text.strip()
                if re.fullmatch(r'\^?[0-9a-f]{7,40}', t):
                    exp = commit_fmt.replace('{commit}', t)
                    if uri != exp:
                        return bad('commit-target', 'commit link in blame output does not match the wrapped hash', exp, uri)
                    counters['commit_links'] += 1
    if case['kind'] == 'log' and opts.get('--commit-style') not in (None, 'raw', 'omit') and 'raw' not in str(opts.get('--commit-style')).split():
        # the commit line of a log carries a link on its hash
        if counters['commit_links'] == 0 and re.search('[a-f]', case.get('commit', 'a')):      # (a hash without a letter is taken for a number)
            return bad('commit-link-missing', 'the commit line carries no hyperlink on its hash (%s)' % ('format derived from the origin remote' if repo_cwd else 'configured format'),
                       commit_fmt, 'no link')
        if repo_cwd:
            counters['remote_derived_commit_links'] = counters['commit_links']
    sig = (case['kind'], case['view'], tuple(sorted(case['meta']['classes'])), file_fmt, commit_fmt, mode)
    o = held(sig=sig, nontrivial=counters['links'] > 0, counters=counters, sets=sets,
             sample={'kind': case['kind'], 'view': case['view'], 'file_fmt': file_fmt, 'links': counters['links'],
                     'example_links': [l for rw in rws for l in rw.links][:3]})
    o['executions'] = 2
    return o


def floors(ctx, agg):
    p = []
    for k, m in (('file_links', 300), ('line_links', 1000), ('commit_links', 50)):
        if agg.counters.get(k, 0) < m:
            p.append('fewer than %d %s checked' % (m, k))
    return p
