"""C17 - git blame output keeps code and attribution; colours follow commits."""
import os
import re

from .. import corpus, engine, gen, gitrepo, runner, term
from ..engine import held, inconclusive, violated, crash_outcome

ID = 'C17'
LEVEL = 'exploration'
RULE = ('blame stream models (commit sequences with controlled repetition patterns: runs, alternation ABAB, ABCABC, random; '
        'boundary commits, renamed-file column, authors with spaces / wide characters, assorted time zones; commit -> (author, '
        'time) functional) and real `git blame` output of scratch histories; palettes of 2-6 distinct colours; blame formats '
        'that include the commit; line-number formats (every line, per block); via `delta git blame f` (stub) and via stdin; '
        'every input line must yield one row with identical code and number and the attribution (blank when repeated); the '
        'sequence of row colours is checked against the three colour invariants; distinct = (key sequence pattern, palette size, '
        'format class, delivery); non-trivial = at least two different commits')
ASSUMPTIONS = ['--blame-timestamp-output-format is always given (the default rendering is relative to the wall clock)',
               'the blame format puts a delimiter between the fields so that they can be told apart']
CHUNK = 6
BIN = os.path.join(runner.STUBS, 'bin')
PALETTES = [['#102030', '#203040'], ['#111111', '#222222', '#333333'], ['#400000', '#004000', '#000040', '#404000'],
            ['#101010', '#202020', '#303030', '#404040', '#505050', '#606060'], ['52', '22', '17'], ['red', 'blue'],
            # distinct colours that are neighbours (they fall on one cell of the 256-colour cube)
            ['#2c2c2c', '#303030'], ['#5f0000', '#600101', '#5e0100'], ['#0000d7', '#0101d6', '#00d700']]
AUTHORS = ['Dan Davison', 'Ann', 'Jörg Müller', '山田 太郎', 'x y z w', 'Thomas Otto', "O'Neil", 'a-b c', 'Bo', 'A', 'J. (Jim) Doe', '语',
           'Kangwook Lee (이강욱)', '山田太郎山田太郎山田', 'ＡＢＣＤＥＦＧＨＩＪＫＬＭＮ', 'Ze\u0301 Anto\u0301nio de Almeida Prado', 'A Very Long Author Name Indeed']


def plan(ctx):
    items = [('model', engine.stable_hash((ctx.seed, 'c17', i))) for i in range(ctx.n(6000, 100000))]
    items += [('real', engine.stable_hash((ctx.seed, 'c17r', i))) for i in range(ctx.n(300, 4000))]
    # lines of one commit made a moment ago (the uncommitted changes, say) that arrive slowly, with delta's default relative
    # times: the same attribution whatever the clock says in between (12 s per case, they run beside the others)
    items += [('slow', i) for i in range(ctx.n(2, 12))]
    # one instant written in several time zones, delta's default relative times: the same text for all of them
    items += [('zones', engine.stable_hash((ctx.seed, 'c17z', i))) for i in range(ctx.n(40, 600))]
    return items


def run_zones(seed):
    import time
    rng = engine.item_rng(seed)
    age = rng.choice([200 * 60, 3 * 3600 + 1200, 26 * 3600, 40 * 86400, 3 * 365 * 86400]) + rng.randrange(0, 600)
    instant = time.time() - age
    zones = rng.sample([('+0000', 0), ('+0900', 9 * 3600), ('-0700', -7 * 3600), ('+0530', 5 * 3600 + 1800), ('-0330', -(3 * 3600 + 1800)), ('+1400', 14 * 3600), ('-1100', -11 * 3600)], 3)
    lines = []
    for i, (z, off) in enumerate(zones):
        stamp = time.strftime('%Y-%m-%d %H:%M:%S', time.gmtime(instant + off)) + ' ' + z
        lines.append('%08x (Author%d %s %d) code line %d' % (0x1a2b3c00 + i, i, stamp, i + 1, i + 1))
    args = ['--paging', 'never', '--no-gitconfig', '--syntax-theme', 'none', '--blame-format', '{timestamp:<20}¦{author:<10}¦{commit:<8}']
    res = runner.run_delta(args, ('\n'.join(lines) + '\n').encode())
    sets = {'patterns': ['one-instant-in-several-zones'], 'formats': ['default (relative time)'], 'delivery': ['whole'], 'zones': [z for z, _ in zones]}
    c = crash_outcome(res, ID)
    if c is not None:
        return c
    if res.rc != 0:
        return inconclusive('exit %d' % res.rc, sets=sets)
    rws = [r for r in term.decode(res.out.decode('utf-8', 'replace')) if r.text().strip()]
    times = [r.text().split('¦')[0].strip() for r in rws]
    if len(times) != 3:
        return violated('c17:zones:rows', 'three blame lines gave %d rows' % len(times), 3, len(times), run=res, sets=sets)
    if len(set(times)) != 1:
        return violated('c17:zones:relative-time-depends-on-zone', 'one instant (%d s ago) written in three time zones is shown with different relative times' % age,
                        'the same text three times', times, run=res, sets=sets, extra={'input': lines})
    return held(sig=('zones', tuple(z for z, _ in zones), age // 3600), nontrivial=True, counters={'rows_compared': 3, 'zone_cases': 1}, sets=sets)


def run_slow(idx):
    import subprocess
    import time
    stamp = time.strftime('%Y-%m-%d %H:%M:%S +0000', time.gmtime(time.time() - [0, 3, 50, 3590][idx % 4]))
    lines = ['abcdef12 (Ann Lee %s %d) line %d of the new code' % (stamp, i + 1, i + 1) for i in range(3)]
    args = ['--paging', 'never', '--no-gitconfig', '--syntax-theme', 'none', '--blame-palette', '#101010 #202020 #303030']
    sets = {'patterns': ['slow-recent-commit'], 'delivery': ['paced: 11.5 s between the first and the second line'], 'formats': ['default (relative time)']}
    proc = subprocess.Popen([runner.binary('hooks')] + args, stdin=subprocess.PIPE, stdout=subprocess.PIPE, stderr=subprocess.PIPE,
                            env=runner.base_env(None), cwd=os.path.join(runner.workdir(), 'cwd'))
    try:
        proc.stdin.write((lines[0] + '\n').encode())
        proc.stdin.flush()
        time.sleep(11.5)
        proc.stdin.write(('\n'.join(lines[1:]) + '\n').encode())
        proc.stdin.close()
        proc.stdin = None
        out, err = proc.communicate(timeout=30)
    except Exception as e:
        proc.kill()
        return inconclusive('paced run failed: %r' % e, sets=sets)
    if proc.returncode != 0:
        return inconclusive('exit %s: %s' % (proc.returncode, err[:100]), sets=sets)
    rws = [r for r in term.decode(out.decode('utf-8', 'replace')) if r.text().strip()]
    if len(rws) != 3:
        return violated('c17:slow:rows', 'three blame lines of one commit gave %d rows' % len(rws), 3, len(rws), sets=sets)
    metas = [r.text().split('\u2502')[0] for r in rws]
    cols = [r.cells[0].bg if r.cells else None for r in rws]
    if any(m.strip() for m in metas[1:]):
        return violated('c17:slow:metadata-not-blanked', 'lines of one commit that arrived 11.5 s apart: the metadata is repeated (the relative time had changed)',
                        [metas[0], '', ''], metas, sets=sets, extra={'input': lines})
    if len(set(cols)) != 1:
        return violated('c17:slow:colour-changes', 'lines of one commit that arrived 11.5 s apart have different colours', cols[0], cols, sets=sets, extra={'input': lines})
    return held(sig=('slow', idx % 4), nontrivial=True, counters={'rows_compared': 3, 'slow_cases': 1}, sets=sets)


def gen_model(rng):
    ncommits = rng.randint(1, 6)
    hash_len = rng.choice([8, 8, 8, 7, 10, 12, 40])      # git blame, --abbrev=N, -l
    commits = []
    used = set()
    for i in range(ncommits):
        while True:
            h = ''.join(rng.choice('0123456789abcdef') for _ in range(hash_len))
            if h[:7] not in used:
                used.add(h[:7])
                break
        commits.append({'hash': h, 'boundary': rng.random() < 0.15, 'author': rng.choice(AUTHORS), 'mark': rng.choice([''] * 9 + ['?', '*']),
                        'time': '20%02d-%02d-%02d %02d:%02d:%02d' % (rng.randint(10, 23), rng.randint(1, 12), rng.randint(1, 28),
                                                                     rng.randint(0, 23), rng.randint(0, 59), rng.randint(0, 59)),
                        'tz': rng.choice(corpus.ZONES)})
    pattern = rng.choice(['random', 'runs', 'alternate', 'abab', 'abcabc', 'single'])
    n = rng.randint(2, 18)
    seq = []
    cur = rng.randrange(ncommits)
    for i in range(n):
        if pattern == 'random':
            cur = rng.randrange(ncommits)
        elif pattern == 'runs':
            if rng.random() < 0.35:
                cur = rng.randrange(ncommits)
        elif pattern == 'alternate':
            cur = (cur + 1) % ncommits
        elif pattern == 'abab':
            cur = i % min(2, ncommits)
        elif pattern == 'abcabc':
            cur = i % min(3, ncommits)
        seq.append(cur)
    with_file = rng.random() < 0.25
    # blame across renames (or -f): a file-name column, padded to the longest name; names may contain blanks
    names = rng.sample(['old/name.rs', 'old render.rs', 'src/a b/c d.rs', 'x.rs', 'dir-1/näme.rs'], rng.randint(1, 3))
    for c in commits:
        c['file'] = rng.choice(names)
    fw = max(len(c['file']) for c in commits)
    start = rng.choice([1, 1, 8, 95, 998])
    lines = []
    for i, ci in enumerate(seq):
        code = gen.rand_text(rng, 50)
        if rng.random() < 0.06:
            # code that reads like the end of blame metadata
            code = rng.choice(['log("at 2021-02-03 04:05:06 +0000 99) done")', 'x (y 2019-12-31 23:59:59 -0800 7) z', '// see 2020-01-01 00:00:00 +0000 1)']) + ' ' + code[:12]
        lines.append({'commit': commits[ci], 'lineno': start + i, 'code': code, 'file': commits[ci]['file'].ljust(fw) if with_file else None})
    return lines, pattern


def run_item(item):
    kind, seed = item
    if kind == 'slow':
        return run_slow(seed)
    if kind == 'zones':
        return run_zones(seed)
    rng = engine.item_rng(seed)
    if kind == 'real':
        repo = gitrepo.Repo(rng)
        try:
            repo.write('f.rs', [gitrepo.safe_line(rng, tabs_ok=False) or 'x' for _ in range(rng.randint(3, 10))])
            repo.commit('one')
            for k in range(rng.randint(1, 4)):
                ls = list(repo.files['f.rs'])
                for _ in range(rng.randint(1, 3)):
                    j = rng.randrange(len(ls) + 1)
                    if rng.random() < 0.6:
                        ls.insert(j, gitrepo.safe_line(rng, tabs_ok=False) or 'y')
                    elif ls:
                        ls[min(j, len(ls) - 1)] = gen.mutate_text(rng, ls[min(j, len(ls) - 1)])
                repo.write('f.rs', ls)
                repo.commit('c%d' % k)
            text = repo.git('blame', 'f.rs').decode('utf-8', 'replace')
        finally:
            repo.remove()
        model = []
        for l in text.rstrip('\n').split('\n'):
            m = re.match(r'^(\^?[0-9a-f]+) (?:(\S+) +)?\((.*?) +(\d{4}-\d\d-\d\d \d\d:\d\d:\d\d) ([-+]\d{4}) +(\d+)\) ?(.*)$', l)
            if not m:
                return inconclusive('could not parse real git blame output: %r' % l[:80])
            model.append({'commit': {'hash': m.group(1).lstrip('^'), 'boundary': m.group(1).startswith('^'), 'author': m.group(3),
                                     'time': m.group(4), 'tz': m.group(5), 'raw_hash': m.group(1)},
                          'lineno': int(m.group(6)), 'code': m.group(7), 'file': m.group(2)})
        pattern = 'real'
    else:
        model, pattern = gen_model(rng)
        text = corpus.blame_text(model)
    mll = None
    if kind != 'real' and rng.random() < 0.15:
        # some lines longer than --max-line-length: cut (with the mark), still rows of their commit like the others
        # (the metadata itself stays within the limit: a line cut before its ')' is no blame line any more)
        prefix = max(len(x.encode('utf-8')) - len(l_['code'].encode('utf-8')) for x, l_ in zip(text.split('\n'), model))
        mll = prefix + rng.choice([12, 40, 100])
        for l_ in model:
            if rng.random() < 0.4:
                l_['code'] = (l_['code'].replace('\t', ' ') + ' ' + 'w0rd ' * 80)[:rng.choice([6, 30, 60, 150, 300])]
        text = corpus.blame_text(model)
    palette = rng.choice(PALETTES)
    fmt_cls = rng.choice(['commit-author-time', 'time-commit', 'commit-only', 'author-commit', 'author-prec14', 'author-prec5', 'prec-no-width'])
    fmt = {'commit-author-time': '{commit:<8}¦{author:<14}¦{timestamp:<16}', 'time-commit': '{timestamp:<16}¦{commit:<9}',
           'commit-only': '{commit:<8}', 'author-commit': '{author:>16}¦{commit:<8}',
           # a precision is a maximal number of characters (delta's own default format has one: {author:<15.14})
           'author-prec14': '{commit:<8}¦{author:<15.14}¦{timestamp:<16}', 'author-prec5': '{author:<10.5}¦{commit:<8}',
           # (a precision without a width, with and without an alignment character)
           'prec-no-width': '{author:.6}¦{commit:<.8}¦{timestamp}'}[fmt_cls]
    sepcls = rng.choice(['every', 'every', 'block', 'none', 'every-2', 'every-3', 'every-5'])
    sepfmt = {'every': '‖{n:^5}‖', 'block': '‖{n:^5_block}‖', 'none': 'none', 'every-2': '‖{n:^5_every-2}‖', 'every-3': '‖{n:>5_every-3}‖',
              'every-5': '‖{n:^5_every-5}‖'}[sepcls]
    tabs = rng.choice([8, 4, 2])
    with_zone = rng.random() < 0.5
    tsfmt = '%Y-%m-%d %H:%M' + (' %z' if with_zone else '')
    opts = {'--paging': 'never', '--true-color': rng.choice(['always', 'always', 'never']), '--blame-palette': ' '.join(palette), '--blame-format': fmt,
            '--blame-timestamp-output-format': tsfmt, '--blame-separator-format': sepfmt, '--syntax-theme': 'none',
            '--tabs': tabs}
    if rng.random() < 0.3:
        opts['--syntax-theme'] = rng.choice(['Dracula', 'GitHub'])
    if rng.random() < 0.3:
        opts['--width'] = rng.choice([80, 120, 200])
    if mll:
        opts['--max-line-length'] = mll
    in_lines = text.split('\n')
    args = gen.to_args(opts)
    delivery = rng.choice(['stdin', 'delta-git-blame'])
    if delivery == 'stdin':
        res = runner.run_delta(args, text.encode())
    else:
        env = {'VERIF_STUB_OUT': runner.write_file('c17_stub', text)}
        res = runner.run_delta(args + ['git', 'blame', 'src/f.rs'], b'', env=env, path_prefix=BIN, stdin_is_none=True)
    c = crash_outcome(res, ID)
    if c is not None:
        return c
    if res.rc != 0:
        return inconclusive('exit %d: %s' % (res.rc, res.err[:120]))
    sets = {'patterns': [pattern], 'palette_sizes': [str(len(palette))], 'formats': [fmt_cls], 'delivery': [delivery], 'separator': [sepcls]}
    counters = {'rows_compared': 0, 'colour_steps': 0, 'reappearances': 0}
    rws = [r for r in term.decode(res.out)]

    def bad(key, what, exp, obs):
        return violated('c17:' + key, what, exp, obs, run=res, counters=counters, sets=sets, extra={'input': text[:1500]})
    if len(rws) != len(model):
        return bad('row-count', 'number of output rows differs from the number of blame lines', len(model), len(rws))
    pal = [term.color_of(p) if p.startswith('#') else (('idx', int(p)) if p.isdigit() else ('idx', {'red': 1, 'blue': 4}[p])) for p in palette]
    from . import c12 as _c12

    def nearest256(col):
        if col is None or col[0] != 'rgb':
            return col
        return ('idx', min(range(16, 256), key=lambda n: _c12.dist(_c12.palette_rgb(n), col[1])))
    pal256 = [nearest256(c) for c in pal]
    colors = []
    keys = []
    for i, (l, r) in enumerate(zip(model, rws)):
        t = r.text()
        cm = l['commit']
        shown_hash = cm.get('raw_hash') or corpus.shown_blame_hash(cm)
        tstr = cm['time'][:16] + ((' ' + cm['tz']) if with_zone else '')
        key = (shown_hash, cm['author'], cm['time'], cm['tz'])
        keys.append(key)
        repeat = i > 0 and keys[i - 1] == key
        # split metadata / separator / code
        sep_l = '‖' if sepcls != 'none' else '│'
        if sepcls == 'none':
            k = t.find('│')
            if k < 0:
                return bad('separator', 'separator not found in row %d' % i, '│', t[:100])
            meta, numtxt, code = t[:k], '', t[k + 1:]
        else:
            parts = t.split('‖')
            if len(parts) < 3:
                return bad('separator', 'separator format not found in row %d' % i, '‖n‖', t[:100])
            meta, numtxt, code = parts[0], parts[1], '‖'.join(parts[2:])
        # code
        exp_code = ' ' + l['code'].replace('\t', ' ' * tabs) if kind != 'real' else (' ' + l['code']).replace('\t', ' ' * tabs)
        if kind == 'real':
            # git pads nothing after ')' but the code capture starts right after it
            exp_code = (' ' + l['code']).replace('\t', ' ' * tabs)
        cut = mll is not None and i < len(in_lines) and len(in_lines[i].encode('utf-8')) > mll
        if cut and code.rstrip(' ').endswith('→') and exp_code.startswith(code.rstrip(' ')[:-1].rstrip(' ')):
            pass        # beyond the maximal line length: cut, with the mark
        elif code.rstrip(' ') != exp_code.rstrip(' ') or not code.startswith(exp_code.rstrip(' ')):
            return bad('code', 'code of blame line %d is not shown unchanged' % (i + 1), exp_code, code)
        # number
        if sepcls == 'every':
            if numtxt.strip() != str(l['lineno']):
                return bad('line-number', 'line number of blame line %d differs' % (i + 1), l['lineno'], numtxt)
        elif sepcls.startswith('every-'):
            # the number of the first line of a block, and inside a block of every N-th line
            n_ = int(sepcls.split('-')[1])
            want_num = str(l['lineno']) if (not repeat or l['lineno'] % n_ == 0) else ''
            if numtxt.strip() != want_num:
                return bad('line-number-every-n', 'line number field of blame line %d under %s (first line of its block: %s)' % (i + 1, sepcls, not repeat), want_num, numtxt)
        elif sepcls == 'block':
            if repeat:
                if numtxt.strip() != '':
                    return bad('line-number-block', 'line number shown inside a block although the format asks for one per block', '', numtxt)
            elif numtxt.strip() != str(l['lineno']):
                return bad('line-number', 'line number of blame line %d differs' % (i + 1), l['lineno'], numtxt)
        # metadata
        if repeat:
            if meta.strip() != '':
                return bad('metadata-not-blanked', 'metadata repeated on a consecutive line of the same commit', '', meta)
        else:
            fields = [f.strip() for f in meta.split('¦')]
            want = {'commit-author-time': [shown_hash, cm['author'], tstr], 'time-commit': [tstr, shown_hash],
                    'commit-only': [shown_hash], 'author-commit': [cm['author'], shown_hash],
                    'author-prec14': [shown_hash, cm['author'][:14].strip(), tstr], 'author-prec5': [cm['author'][:5].strip(), shown_hash],
                    'prec-no-width': [cm['author'][:6].strip(), shown_hash[:8], tstr]}[fmt_cls]
            if kind == 'real':
                want = [w for w in want]
            if fields != want:
                return bad('metadata', 'attribution shown for blame line %d differs' % (i + 1), want, fields)
        counters['rows_compared'] += 1
        # colour of the row: background of its first cell (fall back to the fill)
        col = r.cells[0].bg if r.cells else (r.fills[0][2][1] if r.fills else None)
        colors.append(col)
    # colour invariants
    last_color = {}
    for i in range(len(model)):
        c_ = colors[i]
        if c_ not in pal and not (opts['--true-color'] == 'never' and c_ in pal256):
            # (without 24-bit colour a palette entry may come out as its nearest cell of the 256-colour palette)
            return bad('colour-not-in-palette', 'row %d is painted with a colour that is not in the palette' % i, pal, c_)
        if i > 0:
            counters['colour_steps'] += 1
            if keys[i] == keys[i - 1] and c_ != colors[i - 1]:
                return bad('same-commit-different-colour', 'consecutive lines of the same commit have different colours (rows %d,%d)' % (i - 1, i), colors[i - 1], c_)
            if keys[i] != keys[i - 1] and c_ == colors[i - 1]:
                return bad('different-commit-same-colour', 'a line attributed differently from its predecessor has the predecessor\'s colour (rows %d,%d)' % (i - 1, i),
                           'different from %r' % (colors[i - 1],), c_)
            if keys[i] != keys[i - 1] and keys[i] in last_color:
                counters['reappearances'] += 1
                if last_color[keys[i]] != colors[i - 1] and c_ != last_color[keys[i]]:
                    return bad('reappearing-commit-changed-colour', 'a commit that reappears did not keep its colour although that would not collide with the line above (row %d)' % i,
                               last_color[keys[i]], c_)
        last_color[keys[i]] = c_
    return held(sig=(pattern, tuple(keys.index(k) for k in keys) if kind != 'real' else len(set(keys)), len(palette), fmt_cls, sepcls, delivery),
                nontrivial=len(set(keys)) >= 2, counters=counters, sets=sets,
                sample={'pattern': pattern, 'key_sequence': [keys.index(k) for k in keys], 'palette': palette,
                        'colours': [pal.index(c_) if c_ in pal else pal256.index(c_) for c_ in colors], 'input_head': text.split('\n')[:2]})


def floors(ctx, agg):
    p = []
    if agg.counters.get('rows_compared', 0) < 10000:
        p.append('fewer than 10000 blame rows compared')
    if agg.counters.get('reappearances', 0) < 1000:
        p.append('fewer than 1000 reappearing commits observed')
    if 'real' not in agg.sets.get('patterns', ()):
        p.append('no real git blame output was exercised')
    return p
