"""C18 - exit status and pager protocol: all output delivered, quits are silent."""
import os
import subprocess
import time

from .. import corpus, engine, gen, runner, term
from ..engine import held, inconclusive, violated
from .. import crash as crashmod

ID = 'C18'
LEVEL = 'fault_enumeration'
RULE = ('(1) status: stdin mode exits 0; `delta a b` with stub differ statuses {0,1,2,129} and `delta git|rg ...` with stub '
        'statuses {0,1,2,3,129,255}: status passed through and stdout complete; (2) pager selection and delivery over the lattice '
        '{--pager, delta.pager, DELTA_PAGER, BAT_PAGER, PAGER (incl. more/most, "less -F"), none} x --paging always/auto/never with '
        'recording stub pagers: the right stub ran, received exactly the bytes of a pipe-mode run, less got raw-control-chars '
        'handling when its arguments are delta\'s to choose; (3) delta exits only after the pager wrote its last-act marker; (4) '
        'reader disappears: EPIPE injected by an LD_PRELOAD shim at EVERY write call n = 1..N of each case (stdout and pager mode), '
        'real closed pipe, stub pager quitting after n bytes; distinct = (sub-monitor, case, fault point); non-trivial = all')
ASSUMPTIONS = ['the shim fails write(2)/writev(2) in the delta process only; stub pagers are shell scripts first in PATH',
               'SIGPIPE is ignored by the Rust runtime, so a vanished reader shows up as EPIPE, which is what the shim returns']
CHUNK = 1
SHIM = os.path.join(runner.STUBS, 'writefault.so')
BIN = os.path.join(runner.STUBS, 'bin')


def plan(ctx):
    items = []
    for i in range(ctx.n(60, 1500)):
        items.append(('status', engine.stable_hash((ctx.seed, 'st', i))))
    for i in range(ctx.n(150, 4000)):
        items.append(('pager', engine.stable_hash((ctx.seed, 'pg', i))))
    for i in range(ctx.n(24, 400)):
        items.append(('wait', engine.stable_hash((ctx.seed, 'wt', i))))
    for i in range(ctx.n(40, 600)):
        items.append(('fault', engine.stable_hash((ctx.seed, 'ft', i))))
    for i in range(ctx.n(60, 1200)):
        items.append(('closed', engine.stable_hash((ctx.seed, 'cl', i))))
    for i in range(ctx.n(16, 240)):
        items.append(('sigint', engine.stable_hash((ctx.seed, 'si', i))))
    return items


def run_sigint(rng):
    """ctrl-c while the pager runs (the terminal sends SIGINT to the whole foreground group): the pager handles it itself,
    delta must neither die of it nor leave before the pager, in every mode that starts a pager."""
    w = runner.workdir()
    d = small_diff(rng)
    data = d.text().encode()
    what = rng.choice(['stdin', 'stdin', 'help', 'help', 'two-files', 'git-show'])
    fa = runner.write_file('c18_a.txt', 'a\nb\n')
    fb = runner.write_file('c18_b.txt', 'a\nc\n')
    stub_out = runner.write_file('c18_stub_out_si', data)
    args = {'stdin': ['--paging', 'always'], 'help': ['--help'], 'show-config': ['--show-config', '--paging', 'always'],
            'two-files': ['--paging', 'always', fa, fb], 'git-show': ['--paging', 'always', 'git', 'show']}[what]
    want_rc = 1 if what == 'two-files' else 0
    sets = {'sub': ['sigint:' + what]}
    got = {}
    for knob in (False, True):
        log = os.path.join(w, 'tmp', 'c18si.%d.%d' % (os.getpid(), int(time.time() * 1e6)))
        env = {'DELTA_PAGER': 'mypager', 'VERIF_PAGER_LOG': log, 'VERIF_STUB_OUT': stub_out, 'VERIF_STUB_RC': str(want_rc)}
        if knob:
            env['VERIF_PAGER_SIGINT_PARENT'] = '1'
        e = runner.base_env(env, path_prefix=BIN)
        with open(log + '.out', 'wb') as fo, open(log + '.err', 'wb') as fe:
            # (started below a shell that reads like a git command delta has no description for: whatever else runs on the
            # machine, the calling process is "none" - see runner.run_delta)
            import shlex
            script = ' '.join(shlex.quote(a) for a in [runner.binary()] + args) + '; rc=$?; exit $rc'
            p = subprocess.Popen([runner.NEUTRAL_PARENT[0], '-c', script] + list(runner.NEUTRAL_PARENT[1:]), executable='/bin/sh',
                                 stdin=subprocess.PIPE if what == 'stdin' else subprocess.DEVNULL, stdout=fo, stderr=fe, env=e, cwd=os.path.join(w, 'cwd'))
            try:
                if what == 'stdin':
                    p.stdin.write(data)
                    p.stdin.close()
            except (BrokenPipeError, OSError):
                pass
            try:
                p.wait(timeout=20)
            except subprocess.TimeoutExpired:
                p.kill()
                p.wait()
                return [inconclusive('watchdog in sigint sub-monitor', sets=sets)]
            marker = os.path.exists(log + '.marker')
        try:
            received = open(log + '.stdin', 'rb').read()
        except OSError:
            received = None
        err = open(log + '.err', 'rb').read()
        for ext in ('.meta', '.stdin', '.marker', '.out', '.err'):
            try:
                os.unlink(log + ext)
            except OSError:
                pass
        got[knob] = (p.returncode, marker, received, err)
    (rc0, m0, r0, e0), (rc1, m1, r1, e1) = got[False], got[True]
    if r0 is None or rc0 != want_rc:
        return [inconclusive('%s: no pager was started or status %s without any signal' % (what, rc0), sets=sets)]
    if rc1 != want_rc:
        return [violated('c18:sigint:status:' + what, 'SIGINT while the pager runs (%s): delta exited with %s, without the signal with %s' % (what, rc1, rc0), want_rc, rc1, sets=sets,
                         extra={'stderr': e1[-300:].decode('utf-8', 'replace')})]
    if not m1:
        return [violated('c18:sigint:exit-before-pager:' + what, 'SIGINT while the pager runs (%s): delta had exited before the pager finished' % what, 'pager finished first', 'delta first', sets=sets)]
    if r1 != r0:
        return [violated('c18:sigint:pager-input:' + what, 'SIGINT while the pager runs (%s): the pager received %s bytes, without the signal %d' % (what, None if r1 is None else len(r1), len(r0)),
                         len(r0), None if r1 is None else len(r1), sets=sets)]
    o = held(sig=('sigint', what), nontrivial=True, counters={'sigint_runs': 1}, sets=sets)
    o['executions'] = 2
    return [o]


def small_diff(rng, nsec=None):
    d = gen.gen_diff(rng, nsections=nsec or rng.randint(1, 2), maxlen=40, simple_paths=True,
                     kinds=['modified', 'added', 'renamed_changed', 'deleted'])
    return d


def render_opts(rng):
    o = {}
    for name, p in (('--side-by-side', 0.25), ('--line-numbers', 0.3), ('--navigate', 0.15), ('--hyperlinks', 0.1)):
        if rng.random() < p:
            o[name] = True
    if rng.random() < 0.3:
        o['--width'] = rng.choice([60, 100])
    return o


def run_plain(args, data, env=None, path_prefix=BIN, **kw):
    return runner.run_delta(args, data, env=env, path_prefix=path_prefix, **kw)


def silent(res):
    return res.err.strip() == b''


# ------------------------------------------------------------------ (1) status

def run_status(rng):
    outs = []
    d = small_diff(rng)
    data = d.text().encode()
    o = render_opts(rng)
    args = gen.to_args(o) + ['--paging', 'never']
    ref = run_plain(args, data)
    c = crashmod.classify(ref)
    if c is not None or ref.rc != 0:
        return [violated('c18:stdin-status', 'stdin mode: exit status %s / crash %s' % (ref.rc, c and c['signature']), 0, ref.rc, run=ref)]
    outs.append(held(sig=('status', 'stdin', len(data)), counters={'status_runs': 1}, sets={'sub': ['status:stdin']}))
    # delta a b with a stub differ
    w = runner.workdir()
    fa = runner.write_file('c18_a.txt', 'a\nb\n')
    fb = runner.write_file('c18_b.txt', 'a\nc\n')
    stub_out = runner.write_file('c18_stub_out', data)
    for rc in rng.sample([0, 1, 2, 129], 2):
        env = {'VERIF_STUB_OUT': stub_out, 'VERIF_STUB_RC': str(rc)}
        if rc >= 2:
            env['VERIF_STUB_ERR'] = runner.write_file('c18_stub_err', 'fatal: trouble\nsecond line\n')
        r = run_plain(args + [fa, fb], b'', env=env, stdin_is_none=True)
        c = crashmod.classify(r)
        if c is not None:
            outs.append(violated('c18:crash:' + c['signature'], c['detail'], run=r))
            continue
        if r.rc != rc:
            outs.append(violated('c18:differ-status', '`delta a b`: differ exited %d, delta exited %d' % (rc, r.rc), rc, r.rc, run=r))
        elif r.out != ref.out:
            outs.append(violated('c18:differ-output', '`delta a b`: output is not the complete rendering of the differ\'s output', len(ref.out), len(r.out), run=r))
        else:
            outs.append(held(sig=('status', 'differ', rc, tuple(sorted(o))), counters={'status_runs': 1}, sets={'sub': ['status:differ-%d' % rc]}))
    # one side read through a file descriptor, as with `delta <(sort a) b` (the shell passes /dev/fd/N): the real git and diff
    # of this machine do the comparison (git < 2.42 would compare the link, not what it points to, so delta must choose
    # diff for it).  0 and no output for identical contents, 1 and the changed lines otherwise - whichever side is the fd
    if rng.random() < 0.5:
        ta, tb = 'same line\nremoved %d\nlast\n' % rng.randrange(10 ** 6), 'same line\nadded %d\nlast\n' % rng.randrange(10 ** 6)
        fb2 = runner.write_file('c18_fd_b.txt', tb)
        fdpath = rng.choice(['/dev/fd/0', '/proc/self/fd/0'])
        side = rng.choice(['left', 'right'])
        for content, want_rc in ((tb, 0), (ta, 1)):
            pos = [fdpath, fb2] if side == 'left' else [fb2, fdpath]
            r = run_plain(['--paging', 'never', '--no-gitconfig'] + pos, content.encode(), path_prefix=None)
            c = crashmod.classify(r)
            vis = '\n'.join(term.visible_lines(r.out.decode('utf-8', 'replace')))
            if c is not None:
                outs.append(violated('c18:crash:' + c['signature'], c['detail'], run=r))
            elif r.rc != want_rc:
                outs.append(violated('c18:fd-path-status', '`delta %s`: contents %s, delta exited %s' % (' '.join(pos), 'identical' if want_rc == 0 else 'different', r.rc),
                                     want_rc, r.rc, run=r))
            elif want_rc == 0 and r.out.strip():
                outs.append(violated('c18:fd-path-output', '`delta %s` with identical contents rendered a difference' % ' '.join(pos), b'', r.out[:200], run=r))
            elif want_rc == 1 and not (ta.split('\n')[1] in vis and tb.split('\n')[1] in vis):
                outs.append(violated('c18:fd-path-output', '`delta %s`: the changed lines are not in the rendered output' % ' '.join(pos),
                                     [ta.split('\n')[1], tb.split('\n')[1]], vis[:300], run=r))
            else:
                outs.append(held(sig=('status', 'fd-path', fdpath, side, want_rc), counters={'status_runs': 1}, sets={'sub': ['status:fd-path-%s-%d' % (side, want_rc)]}))
    # the same with an active pager: the status is still the differ's / the command's, and the pager receives the rendering
    for _ in range(2):
        rc = rng.choice([0, 1, 2, 3, 129])
        sub = rng.choice([[fa, fb], ['git', 'show'], ['git', 'diff']])
        log = os.path.join(w, 'tmp', 'c18stp.%d' % int(time.time() * 1e6))
        env = {'VERIF_STUB_OUT': stub_out, 'VERIF_STUB_RC': str(rc), 'VERIF_PAGER_LOG': log, 'DELTA_PAGER': rng.choice(['mypager', 'less']),
               'VERIF_PAGER_RC': str(rng.choice([0, 0, 3]))}
        pargs = [a if a != 'never' else 'always' for a in args]
        r = run_plain(pargs + sub, b'', env=env, stdin_is_none=True)
        try:
            got = open(log + '.stdin', 'rb').read()
        except OSError:
            got = None
        for ext in ('.meta', '.stdin', '.marker'):
            try:
                os.unlink(log + ext)
            except OSError:
                pass
        c = crashmod.classify(r)
        label = 'differ' if sub[0] == fa else '-'.join(sub)
        if c is not None:
            outs.append(violated('c18:crash:' + c['signature'], c['detail'], run=r))
        elif r.rc != rc:
            outs.append(violated('c18:status-with-pager:' + label, 'with a pager: the command exited %d, delta exited %d' % (rc, r.rc), rc, r.rc, run=r))
        elif got != ref.out:
            outs.append(violated('c18:pager-input:' + label, 'with a pager: what the pager received is not the complete rendering', len(ref.out),
                                 None if got is None else len(got), run=r))
        else:
            outs.append(held(sig=('status-pager', label, rc), counters={'status_runs': 1}, sets={'sub': ['status-with-pager:%s-%d' % (label, rc)]}))
    # a command that writes more to stderr than a pipe holds before it writes its output: delta must not wait for ever
    # (it used to read stdout to the end before looking at stderr), the output and every stderr line come through
    if rng.random() < 0.5:
        nflood = rng.choice([900, 2000])
        r = run_plain(args + ['git', 'show'], b'', env={'VERIF_STUB_OUT': stub_out, 'VERIF_STUB_RC': '3', 'VERIF_STUB_ERR_FLOOD': str(nflood)},
                      stdin_is_none=True, timeout=60)
        c = crashmod.classify(r)
        if c is not None:
            outs.append(violated('c18:stderr-flood:' + c['signature'], 'delta git show with a command that writes %d lines to stderr first: %s' % (nflood, c['detail']), run=r))
        elif r.rc != 3 or r.out != ref.out or r.err.count(b'\n') < nflood:
            outs.append(violated('c18:stderr-flood:lost', 'delta git show with a command that writes %d lines to stderr: status %s (3 expected), %d stderr lines, output %s'
                                 % (nflood, r.rc, r.err.count(b'\n'), 'complete' if r.out == ref.out else 'differs'), (3, nflood), (r.rc, r.err.count(b'\n')), run=r))
        else:
            outs.append(held(sig=('stderr-flood', nflood), counters={'status_runs': 1}, sets={'sub': ['status:stderr-flood']}))
    # delta git ... / delta rg ...
    for _ in range(2):
        rc = rng.choice([0, 1, 2, 3, 129, 255])
        which = rng.choice(['git-show', 'git-diff', 'rg', 'git-log'])
        if which == 'rg':
            m = corpus.gen_grep_model(rng)
            sout = corpus.rg_json_text(m).encode()
            sub = ['rg', 'pattern']
            refdata = sout
        else:
            sout = data
            sub = {'git-show': ['git', 'show'], 'git-diff': ['git', 'diff'], 'git-log': ['git', 'log', '-p']}[which]
        env = {'VERIF_STUB_OUT': runner.write_file('c18_stub_out2', sout), 'VERIF_STUB_RC': str(rc)}
        r = run_plain(args + sub, b'', env=env, stdin_is_none=True)
        c = crashmod.classify(r)
        if c is not None:
            outs.append(violated('c18:crash:' + c['signature'], c['detail'], run=r))
            continue
        if r.rc != rc:
            outs.append(violated('c18:wrapped-status:' + which, '`delta %s`: the command exited %d, delta exited %d' % (' '.join(sub), rc, r.rc), rc, r.rc, run=r))
            continue
        if which != 'rg':
            if r.out != ref.out:
                outs.append(violated('c18:wrapped-output:' + which, '`delta %s`: output differs from rendering the same bytes from stdin' % ' '.join(sub),
                                     len(ref.out), len(r.out), run=r))
                continue
        outs.append(held(sig=('status', which, rc), counters={'status_runs': 1}, sets={'sub': ['status:%s-%d' % (which, rc)]}))
    return outs


# ------------------------------------------------------------------ (2) pager selection and delivery

def expected_pager(src):
    """src: dict with optional keys cli, gitconfig, DELTA_PAGER, BAT_PAGER, PAGER -> (name, args_are_deltas_to_choose, user_args)"""
    import shlex
    if src.get('cli') is not None or src.get('gitconfig') is not None:
        cmd = src.get('cli') if src.get('cli') is not None else src.get('gitconfig')
        parts = shlex.split(cmd)
        return parts[0], len(parts) == 1, parts[1:]
    if src.get('DELTA_PAGER') is not None:
        parts = shlex.split(src['DELTA_PAGER'])
        return parts[0], len(parts) == 1, parts[1:]
    if src.get('BAT_PAGER') is not None:
        parts = shlex.split(src['BAT_PAGER'])
        return parts[0], True, []
    if src.get('PAGER') is not None:
        parts = shlex.split(src['PAGER'])
        if parts[0] in ('more', 'most'):
            return 'less', True, []
        return parts[0], True, []
    return 'less', True, []


PAGER_VALUES = ['mypager', 'otherpager', 'thirdpager --flag x', 'less', 'less -F -X', 'less --quit-if-one-screen']


def run_pager(rng):
    d = small_diff(rng)
    data = d.text().encode()
    o = render_opts(rng)
    src = {}
    env = {}
    args = gen.to_args(o)
    cfg = None
    for key, p in (('cli', 0.3), ('gitconfig', 0.25), ('DELTA_PAGER', 0.35), ('BAT_PAGER', 0.3), ('PAGER', 0.45)):
        if rng.random() < p:
            v = rng.choice(PAGER_VALUES + (['more', 'most'] if key == 'PAGER' else []))
            src[key] = v
    if 'cli' in src:
        args += ['--pager', src['cli']]
    if 'gitconfig' in src:
        cfg = runner.write_file('c18.gitconfig', '[delta]\n    pager = %s\n' % src['gitconfig'])
        args = ['--config', cfg] + args
        if 'cli' in src:
            pass
    for k in ('DELTA_PAGER', 'BAT_PAGER', 'PAGER'):
        if k in src:
            env[k] = src[k]
    paging = rng.choice(['always', 'always', 'auto', 'never'])
    nohist = rng.random() < 0.2
    if nohist:
        # --navigate keeps a private history file for less under $XDG_DATA_HOME: when that cannot be written (a read-only or
        # missing home) the pager is started all the same
        env['XDG_DATA_HOME'] = runner.write_file('c18_not_a_directory', 'x') + '/below'
        if '--navigate' not in args:
            args = args + ['--navigate']
    ref = run_plain(args + ['--paging', 'never'], data, env=env)
    if crashmod.classify(ref) is not None or ref.rc != 0:
        return [inconclusive('reference run failed: rc %s' % ref.rc)]
    log = os.path.join(runner.workdir(), 'tmp', 'c18pager.%d' % int(time.time() * 1e6))
    env2 = dict(env)
    env2['VERIF_PAGER_LOG'] = log
    r = run_plain(args + ['--paging', paging], data, env=env2)
    sets = {'sub': ['pager'], 'sources': ['+'.join(sorted(src)) or 'none'], 'paging': [paging], 'history_file': ['unwritable' if nohist else 'default']}
    counters = {'pager_runs': 1}
    try:
        c = crashmod.classify(r)
        if c is not None:
            return [violated('c18:crash:' + c['signature'], c['detail'], run=r, sets=sets)]
        if r.rc != 0 or not silent(r):
            return [violated('c18:pager-status', 'exit %d / stderr %r with pager sources %s' % (r.rc, r.err[:200], src), 0, r.rc, run=r, sets=sets)]
        meta = {}
        ran = os.path.exists(log + '.meta')
        if paging == 'never':
            if ran:
                return [violated('c18:pager-ran-with-paging-never', 'a pager was started although --paging never', None, None, run=r, sets=sets)]
            if r.out != ref.out:
                return [violated('c18:delivery', 'output differs', run=r, sets=sets)]
            return [held(sig=('pager', 'never', tuple(sorted(src.items()))), counters=counters, sets=sets)]
        if not ran:
            return [violated('c18:pager-not-started', 'no pager ran with --paging %s, sources %s' % (paging, src), None, r.out[:100], run=r, sets=sets)]
        name = None
        argv = []
        for l in open(log + '.meta').read().splitlines():
            k, _, v = l.partition('=')
            if k == 'name':
                name = v
            elif k == 'arg':
                argv.append(v)
            else:
                meta[k] = v
        exp_name, deltas_choice, user_args = expected_pager(src)
        if name != exp_name:
            return [violated('c18:pager-selection', 'pager %r ran, expected %r for sources %s' % (name, exp_name, src), exp_name, name, run=r, sets=sets)]
        got = open(log + '.stdin', 'rb').read()
        if got != ref.out:
            return [violated('c18:pager-delivery', 'bytes received by the pager differ from the output of a run without pager (%d vs %d bytes)'
                             % (len(got), len(ref.out)), len(ref.out), len(got), run=r, sets=sets)]
        if r.out.strip():
            return [violated('c18:output-bypassed-pager', 'delta wrote to stdout although a pager was running', b'', r.out[:200], run=r, sets=sets)]
        if name == 'less':
            counters['less_runs'] = 1
            if deltas_choice:
                if not any(a in ('-R', '--RAW-CONTROL-CHARS') or (a.startswith('-') and not a.startswith('--') and 'R' in a) for a in argv):
                    return [violated('c18:less-without-raw-control-chars', 'less was started without -R although its arguments were delta\'s to choose',
                                     '--RAW-CONTROL-CHARS', argv, run=r, sets=sets)]
                if paging == 'auto' and not any(a in ('-F', '--quit-if-one-screen') for a in argv):
                    return [violated('c18:less-auto-without-F', 'paging=auto must start less with --quit-if-one-screen', None, argv, run=r, sets=sets)]
            else:
                if argv[:len(user_args)] != user_args:
                    return [violated('c18:less-user-args-dropped', 'user-given arguments to less were not kept', user_args, argv, run=r, sets=sets)]
            if meta.get('LESSCHARSET') != 'UTF-8':
                return [violated('c18:less-charset', 'LESSCHARSET not set for less', 'UTF-8', meta.get('LESSCHARSET'), run=r, sets=sets)]
        elif user_args and not deltas_choice:
            if argv != user_args:
                return [violated('c18:pager-user-args', 'arguments given with the pager command were not passed on', user_args, argv, run=r, sets=sets)]
        return [held(sig=('pager', paging, tuple(sorted(src.items())), tuple(sorted(o))), counters=counters, sets=sets,
                     sample={'sources': src, 'paging': paging, 'pager_ran': name, 'pager_argv': argv, 'bytes': len(got)})]
    finally:
        for ext in ('.meta', '.stdin', '.marker'):
            try:
                os.unlink(log + ext)
            except OSError:
                pass


# ------------------------------------------------------------------ (3) waits for the pager

def run_wait(rng):
    d = small_diff(rng)
    data = d.text().encode()
    log = os.path.join(runner.workdir(), 'tmp', 'c18wait.%d' % int(time.time() * 1e6))
    delay = rng.choice(['0.05', '0.15', '0.3'])
    pager = rng.choice(['mypager', 'less'])
    env = {'VERIF_PAGER_LOG': log, 'VERIF_PAGER_DELAY': delay, 'DELTA_PAGER': pager}
    sets = {'sub': ['wait']}
    if rng.random() < 0.5:
        # the pager stops reading early (closes its input) but is still running for a while: delta's writes fail with
        # EPIPE, and it must still not return before the pager has finished
        env['VERIF_PAGER_QUIT_AFTER'] = str(rng.choice([0, 1, 100, 5000]))
        data = data * rng.choice([200, 1000])
        sets = {'sub': ['wait:pager-stops-reading']}
    # observe delta's own exit, not the closing of the pipes the pager inherits: delta is started directly, its
    # stdout/stderr go to files, and the marker is looked at the moment wait() returns
    w = runner.workdir()
    e = runner.base_env(env, path_prefix=BIN)
    outp = os.path.join(w, 'tmp', 'c18wait.out')
    errp = os.path.join(w, 'tmp', 'c18wait.err')
    with open(outp, 'wb') as fo, open(errp, 'wb') as fe:
        p = subprocess.Popen([runner.binary(), '--paging', 'always'], stdin=subprocess.PIPE, stdout=fo, stderr=fe, env=e,
                             cwd=os.path.join(w, 'cwd'))
        try:
            p.stdin.write(data)
        except (BrokenPipeError, OSError):
            pass
        try:
            p.stdin.close()
        except (BrokenPipeError, OSError):
            pass
        try:
            p.wait(timeout=20)
        except subprocess.TimeoutExpired:
            p.kill()
            p.wait()
            return [inconclusive('watchdog in wait sub-monitor')]
        marker_at_exit = os.path.exists(log + '.marker')

    class R(object):
        pass
    r = R()
    r.err = open(errp, 'rb').read()
    r.out = open(outp, 'rb').read()
    r.rc = p.returncode
    r.signal = -p.returncode if p.returncode < 0 else None
    r.timed_out = False
    r.args = ['--paging', 'always']
    r.env = env
    r.mode = 'pipe'
    r.pty_size = (24, 80)
    r.stdin = data
    try:
        c = crashmod.classify(r)
        if c is not None:
            return [violated('c18:crash:' + c['signature'], c['detail'], run=r, sets=sets)]
        marker = marker_at_exit
        if not marker:
            # give the pager time to finish so that files can be cleaned up
            time.sleep(0.5)
            return [violated('c18:exit-before-pager', 'delta had exited although the pager had not finished (its last-act marker did not exist yet)',
                             'marker exists', 'no marker', run=r, sets=sets)]
        if r.rc != 0 or not silent(r):
            return [violated('c18:pager-status', 'exit %d stderr %r' % (r.rc, r.err[:100]), run=r, sets=sets)]
        return [held(sig=('wait', pager, delay, len(data)), counters={'wait_runs': 1}, sets=sets)]
    finally:
        for ext in ('.meta', '.stdin', '.marker'):
            try:
                os.unlink(log + ext)
            except OSError:
                pass


# ------------------------------------------------------------------ (4a) write faults, every write call

def run_fault(rng):
    d = small_diff(rng, nsec=1)
    data = d.text().encode()
    o = render_opts(rng)
    pager_mode = rng.random() < 0.4
    args = gen.to_args(o) + ['--paging', 'always' if pager_mode else 'never']
    env = {'WRITEFAULT_N': '0'}
    # input mode: stdin, or a wrapped command / two-file comparison (stub git prints the diff)
    inmode = rng.choice(['stdin', 'stdin', 'delta-git', 'delta-files', 'misc', 'other-input', 'other-input'])
    stdin_none = False
    kw = {}
    if inmode == 'misc':
        # output paths that do not render a diff: each has its own write sites
        sub = rng.choice(['--show-config', '--version', '--help', '--show-colors', '--list-languages', '--list-syntax-themes',
                          '--show-syntax-themes', '--parse-ansi', '--generate-completion'])
        args = ['--paging', 'always' if pager_mode else 'never'] + ([sub, 'bash'] if sub == '--generate-completion' else [sub])
        data = b'\x1b[31mred\x1b[m plain \x1b[1;32mbold green\x1b[m\n' * 3 if sub == '--parse-ansi' else b''
        stdin_none = sub != '--parse-ansi'
        inmode = 'misc:' + sub
    elif inmode == 'other-input':
        # the other handlers (blame, grep, rg --json, git show REV:file, merge conflict, submodule, color-only)
        which = rng.choice(['blame', 'git-grep', 'rg-json', 'show-file', 'conflict', 'color-only', 'raw', 'log'])
        if which == 'blame':
            data = corpus.blame_text(corpus.gen_blame_model(rng)).encode() if hasattr(corpus, 'gen_blame_model') else \
                b'abcd1234 (Ann 2020-01-01 00:00:00 +0000 1) fn a() {}\nabcd1235 (Bob 2020-01-02 00:00:00 +0100 2) let x = 1;\n'
            kw['parent_argv'] = ['git', 'blame', 'f.rs']
        elif which == 'git-grep':
            data = b'src/main.rs:10:fn main() {\nsrc/main.rs-11-    let x = 1;\nsrc/lib.rs:3:pub fn f() {}\n'
            kw['parent_argv'] = ['git', 'grep', '-n', '-C1', 'fn']
        elif which == 'rg-json':
            data = corpus.rg_json_text([('src/main.rs', [(10, 'match', 'fn main() {', [(0, 2)]), (12, 'context', '    let x = 1;', [])])]).encode()
        elif which == 'show-file':
            data = b'fn main() {\n    println!("hi");\n}\n'
            kw['parent_argv'] = ['git', 'show', 'HEAD:src/main.rs']
        elif which == 'conflict':
            lines, _m, _p = corpus.gen_combined(rng, conflict=True, nparents=2)
            data = ('\n'.join(lines) + '\n').encode()
        elif which == 'color-only':
            args = args + ['--color-only']
        elif which == 'raw':
            args = args + ['--raw']
        elif which == 'log':
            data = ('commit ' + 'ab12' * 10 + '\nAuthor: A <a@b>\nDate:   Mon Jan 1 00:00:00 2024 +0000\n\n    message\n\n a.rs | 2 +-\n 1 file changed\n\n').encode() + data
        inmode = 'other-input:' + which
    elif inmode != 'stdin':
        env['VERIF_STUB_OUT'] = runner.write_file('c18_fault_stub', data)
        if inmode == 'delta-git':
            args = args + ['git', 'show']
        else:
            fa = runner.write_file('c18_fa.txt', 'a\n')
            fb = runner.write_file('c18_fb.txt', 'b\n')
            args = args + [fa, fb]
        data = b''
        stdin_none = True
    wlog = os.path.join(runner.workdir(), 'tmp', 'c18wf.%d' % int(time.time() * 1e6))
    env['WRITEFAULT_LOG'] = wlog
    if pager_mode:
        env['DELTA_PAGER'] = 'mypager'
    ref = run_plain(args, data, env=env, preload=SHIM, stdin_is_none=stdin_none, **kw)
    outs = []
    try:
        nwrites = int(open(wlog).read().strip())
    except (OSError, ValueError):
        return [inconclusive('write counter not produced by the shim')]
    if crashmod.classify(ref) is not None or ref.rc != 0:
        return [inconclusive('fault-free run failed')]
    sets = {'sub': ['fault:' + ('pager' if pager_mode else 'stdout') + ':' + inmode]}
    if nwrites < 1:
        return [inconclusive('no write call seen')]
    points = list(range(1, nwrites + 1))
    if nwrites > 80:
        # outputs written with very many small writes (theme / language listings): first, last and a sample in between
        points = sorted(set(points[:30] + points[-10:] + rng.sample(points, 40)))
        sets['sub'].append('fault-points-sampled')
    for n in points:
        env['WRITEFAULT_N'] = str(n)
        r = run_plain(args, data, env=env, preload=SHIM, stdin_is_none=stdin_none, **kw)
        c = crashmod.classify(r)
        key = None
        if c is not None:
            key = 'c18:fault:crash:' + c['signature']
            what = 'EPIPE at write call %d of %d: %s' % (n, nwrites, c['detail'])
        elif r.rc != 0:
            key = 'c18:fault:status-%d' % r.rc
            what = 'EPIPE at write call %d of %d: exit status %d' % (n, nwrites, r.rc)
        elif not silent(r):
            key = 'c18:fault:stderr'
            what = 'EPIPE at write call %d of %d: message on stderr: %r' % (n, nwrites, r.err[:200])
        elif not pager_mode and not ref.out.startswith(r.out):
            key = 'c18:fault:not-prefix'
            what = 'output before the fault is not a prefix of the fault-free output'
        if key:
            outs.append(violated(key, what + ' (%s mode)' % ('pager' if pager_mode else 'stdout'), run=r, sets=sets,
                                 extra={'fault_at': n, 'writes': nwrites}))
        else:
            outs.append(held(sig=('fault', pager_mode, n, len(data), tuple(sorted(o))), counters={'fault_points': 1, 'fault_cases': 1 if n == 1 else 0}, sets=sets,
                             sample={'mode': 'pager' if pager_mode else 'stdout', 'fault_at_write': n, 'of': nwrites} if n == 1 else None))
    # short writes: a write(2) that transfers only part of its bytes (what a signal during a blocked write does) must be
    # continued by the caller; nothing may be lost, status and stderr as in the fault-free run (stdout mode: the bytes are
    # compared; pager mode: what the stub pager passed on)
    env.pop('WRITEFAULT_N', None)
    env['WRITEFAULT_N'] = '0'
    for n in rng.sample(list(range(1, nwrites + 1)), min(nwrites, 6)):
        env['WRITEFAULT_SHORT'] = str(n)
        r = run_plain(args, data, env=env, preload=SHIM, stdin_is_none=stdin_none, **kw)
        c = crashmod.classify(r)
        if c is not None:
            outs.append(violated('c18:short-write:crash:' + c['signature'], 'short write at write call %d of %d: %s' % (n, nwrites, c['detail']), run=r, sets=sets))
        elif r.rc != ref.rc or r.out != ref.out:
            outs.append(violated('c18:short-write:output-lost', 'after a short write at write call %d of %d the output differs from the fault-free output '
                                 '(%d bytes instead of %d, exit %d): the rest of a partially written chunk was dropped (%s mode)'
                                 % (n, nwrites, len(r.out), len(ref.out), r.rc, 'pager' if pager_mode else 'stdout'), len(ref.out), len(r.out), run=r, sets=sets,
                                 extra={'short_at': n, 'writes': nwrites}))
        else:
            outs.append(held(sig=('short', pager_mode, n, len(data), tuple(sorted(o))), counters={'short_write_points': 1}, sets=sets))
    env.pop('WRITEFAULT_SHORT', None)
    try:
        os.unlink(wlog)
    except OSError:
        pass
    return outs


# ------------------------------------------------------------------ (4b,c) real closed pipe / pager quits

def run_closed(rng):
    d = gen.gen_diff(rng, nsections=rng.randint(2, 4), maxlen=60, simple_paths=True)
    # make it big enough that delta is still writing when the reader goes away
    lines = d.lines() * rng.choice([3, 20, 200])
    data = ('\n'.join(lines) + '\n').encode()
    o = render_opts(rng)
    sets = {'sub': []}
    if rng.random() < 0.5:
        # stub pager quits after n bytes
        n = rng.choice([0, 1, 10, 100, 1000, 5000])
        log = os.path.join(runner.workdir(), 'tmp', 'c18quit.%d' % int(time.time() * 1e6))
        env = {'VERIF_PAGER_LOG': log, 'VERIF_PAGER_QUIT_AFTER': str(n), 'DELTA_PAGER': rng.choice(['mypager', 'less'])}
        r = run_plain(gen.to_args(o) + ['--paging', 'always'], data, env=env)
        sets['sub'] = ['pager-quits']
        label = ('pager-quits', n)
        for ext in ('.meta', '.stdin', '.marker'):
            try:
                os.unlink(log + ext)
            except OSError:
                pass
    else:
        # real pipe closed by the reader after k bytes
        k = rng.choice([0, 1, 100, 4096, 70000])
        exe = runner.binary()
        sub_mode = rng.random() < 0.4
        extra = []
        if sub_mode:
            # small or large output of a wrapped command, reader gone (possibly before anything is written)
            small = rng.random() < 0.5
            stub = runner.write_file('c18_closed_stub', data[:3000] if small else data)
            env = runner.base_env({'VERIF_STUB_OUT': stub}, path_prefix=BIN)
            extra = rng.choice([['git', 'show'], ['git', 'diff'], [runner.write_file('c18_ca.txt', 'a\n'), runner.write_file('c18_cb.txt', 'b\n')]])
            if small:
                k = 0
        else:
            env = runner.base_env()
        p = subprocess.Popen([exe, '--paging', 'never'] + gen.to_args(o) + extra, stdin=subprocess.PIPE, stdout=subprocess.PIPE,
                             stderr=subprocess.PIPE, env=env, cwd=os.path.join(runner.workdir(), 'cwd'))
        if sub_mode and k == 0:
            p.stdout.close()
        import threading

        def feed():
            try:
                p.stdin.write(data)
                p.stdin.close()
            except (BrokenPipeError, OSError):
                pass
        t = threading.Thread(target=feed)
        t.start()
        got = b''
        while len(got) < k:
            chunk = p.stdout.read(min(65536, k - len(got)))
            if not chunk:
                break
            got += chunk
        if not p.stdout.closed:
            p.stdout.close()
        try:
            p.wait(timeout=30)
            timed_out = False
        except subprocess.TimeoutExpired:
            p.kill()
            p.wait()
            timed_out = True
        err = p.stderr.read()
        p.stderr.close()
        t.join()

        class R(object):
            pass
        r = R()
        r.err = err
        r.rc = p.returncode
        r.signal = -p.returncode if p.returncode < 0 else None
        r.timed_out = timed_out
        r.args = gen.to_args(o)
        r.env = {}
        r.mode = 'pipe'
        r.pty_size = (24, 80)
        r.stdin = data if len(data) < 100000 else data[:1000]
        r.out = got[:2000]
        sets['sub'] = ['closed-pipe' + (':subcommand' if sub_mode else '')]
        label = ('closed-pipe' + (':subcommand' if sub_mode else ''), k)
    c = crashmod.classify(r)
    if c is not None:
        return [violated('c18:reader-gone:crash:' + c['signature'], '%s: %s' % (label, c['detail']), run=r, sets=sets)]
    if r.rc != 0:
        return [violated('c18:reader-gone:status-%s' % r.rc, 'reader went away (%s): exit status %s' % (label, r.rc), 0, r.rc, run=r, sets=sets)]
    if not silent(r):
        return [violated('c18:reader-gone:stderr', 'reader went away (%s): message on stderr %r' % (label, r.err[:200]), b'', r.err[:200], run=r, sets=sets)]
    return [held(sig=label + (len(data), tuple(sorted(o))), counters={'reader_gone_runs': 1}, sets=sets)]


def run_item(item):
    kind, seed = item
    rng = engine.item_rng(seed)
    if kind == 'status':
        return run_status(rng)
    if kind == 'pager':
        return run_pager(rng)
    if kind == 'wait':
        return run_wait(rng)
    if kind == 'fault':
        return run_fault(rng)
    if kind == 'sigint':
        return run_sigint(rng)
    return run_closed(rng)


def EXHAUSTIVE(ctx):
    return True


EXHAUSTIVE_SCOPE = 'for every case of the write-fault sub-monitor, one fault at each write call 1..N of the fault-free run; cases and all other sub-monitors are sampled'


def floors(ctx, agg):
    p = []
    for k, m in (('status_runs', 150), ('pager_runs', 100), ('wait_runs', 12), ('fault_cases', 20), ('reader_gone_runs', 30)):
        if agg.counters.get(k, 0) < m:
            p.append('fewer than %d %s' % (m, k))
    return p
