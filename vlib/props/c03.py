"""C03 - delta never crashes or hangs, whatever bytes and options it is given."""
import os

from .. import corpus, engine, gen, runner
from .. import crash as crashmod
from ..engine import held, inconclusive, violated

ID = 'C03'
LEVEL = 'exploration'
RULE = ('work item = one random option set (every presentation mode, tiny/odd widths, zero limits) that delta accepts on '
        'empty input, crossed with inputs from every generator (git/plain/combined diffs, conflicts, blame, grep, rg '
        '--json, logs, coloured diffs, random bytes) pushed through 0-3 structured mutations; distinct = hash of '
        '(input bytes, args); non-trivial = input is non-empty')
ASSUMPTIONS = ['build has overflow checks and debug assertions on (arithmetic overflow becomes a panic)',
               'a run that needs >20 s (and again >60 s) on an input below 200 KB is reported as a hang: bounded-progress '
               'restatement of termination (normal run time is ~10 ms)']
CHUNK = 1
INPUTS_PER_ITEM = 14


EXTRA_VARIANTS = {'quick': [], 'thorough': ['asan', 'plain']}


def plan(ctx):
    n = ctx.n(2000, 40000)
    items = [('miri', 0)]
    items += [('fuzz', engine.stable_hash((ctx.seed, 'c03', i))) for i in range(n)]
    items += [('huge', engine.stable_hash((ctx.seed, 'c03h', i))) for i in range(ctx.n(8, 120))]
    items += [('staircase', engine.stable_hash((ctx.seed, 'c03s', i))) for i in range(ctx.n(150, 3000))]
    if ctx.tier == 'thorough':
        items += [('asan', engine.stable_hash((ctx.seed, 'c03a', i))) for i in range(ctx.n(0, 1500))]
        items += [('valgrind', engine.stable_hash((ctx.seed, 'c03v', i))) for i in range(ctx.n(0, 40))]
    return items


PARENTS = {
    'blame': [['git', 'blame', 'src/f.rs'], ['git', 'blame', '-f', 'Makefile'], ['git', 'blame', 'a.unknownext']],
    'grep-plain': [['git', 'grep', '-n', 'x'], ['git', 'grep', 'x'], ['rg', '-n', 'x'], ['git', 'grep', '-n', '-p', 'x'], ['git', 'grep', '-W', 'x'],
                   ['git', 'grep', '--show-function', '-n', 'x'], ['grep', '-rn', 'x', '.'], ['ag', 'x'], ['ack', 'x']],
    'grep-color': [['git', 'grep', '-n', 'x'], ['git', 'grep', '-n', '-p', 'x'], ['git', 'grep', '-n', '-W', 'x'], ['git', 'grep', 'x']],
    'rg-json': [['rg', '--json', 'x'], ['git', 'grep', 'x']],
    'text': [['git', 'show', 'HEAD:src/x.rs'], ['git', 'show', 'HEAD~1:Makefile'], ['git', 'show', 'abc123:'], ['git', 'grep', '-n', 'x']],
    'git-diff': [['git', 'diff', '--word-diff'], ['git', 'diff', '--color-words'], ['git', 'diff', '--word-diff-regex=.'], ['git', 'log', '-p'],
                 ['git', 'diff', '--relative'], ['git', 'show'], ['git', 'stash', 'show', '-p'], ['git', 'reflog', '-p'], ['git', 'add', '-p']],
    'log-p': [['git', 'log', '-p', '--stat'], ['git', 'show', '--word-diff'], ['git', 'log', '--graph', '-p']],
    'combined': [['git', 'show', 'HEAD'], ['git', 'diff', '--cc']],
}


def choose_parent(rng, kind):
    """The calling process decides which handlers are reachable (grep, blame extension, git show REV:file, word-diff)."""
    r = rng.random()
    base = kind.split(':')[0].replace('-colored', '')
    if base in PARENTS and r < 0.6:
        return rng.choice(PARENTS[base])
    if r < 0.7:
        return rng.choice(rng.choice(sorted(PARENTS.values())))
    return None


def base_input(rng):
    """Returns (kind, bytes)."""
    k = rng.randrange(17)
    if k == 16:
        # every spelling of SGR / CSI / OSC that a tool upstream may emit, well-formed or not: colon sub-parameters
        # (ITU T.416), empty and huge parameters, truncated sequences, private modes, 8-bit C1
        seqs = ['38:5:196', '48:5:22', '38:2:1:2:3', '38:2::1:2:3', '48:2::10:20:30', '38:5', '48:5', '38:2', '38:2:1', '38', '48', '38:', '38::',
                '4:3', '4:0', '58:5:1', '58:2::1:2:3', '38;5', '38;2;1', '38;2', '38;5;999', '38;2;256;0;0', '999', '0;0;0;0', ';', ';;', '',
                '1;38:5:4;4', '38:5:4;1', '38:2:0:1:2:3', '38:3:1:2:3', '38:4:1:2:3:4', '38:5:1:2:3:4:5:6:7', '99999999999999999999', '-1', '1:2:3:4:5:6']
        d = gen.gen_diff(rng, nsections=1)
        out = []
        for l in d.lines():
            r = rng.random()
            if r < 0.5:
                l = '\x1b[' + rng.choice(seqs) + 'm' + l + rng.choice(['\x1b[m', '\x1b[0m', '', '\x1b[' + rng.choice(seqs) + 'm'])
            elif r < 0.68 and l[:1] in ('-', '+', ' '):
                # a hunk line in colours of its own (kept raw by delta) with a C0 control character inside a sequence: terminals
                # and parsers execute / skip it and go on with the sequence
                ctl = rng.choice(['\t', '\t', '\x08', '\r', '\x0b', '\x07', '\x00'])
                seq = rng.choice(['3%s5', '%s35', '35%s', '38;5;%s13', '1;%s;35', '38;2;1;%s2;3'])
                l = '\x1b[35m' + l[:1] + '\x1b[m' + '\x1b[' + (seq % ctl) + 'm' + l[1:] + '\x1b[m'
            elif r < 0.6:
                j = rng.randrange(len(l) + 1)
                l = l[:j] + rng.choice(['\x1b[?25l', '\x1b[2J', '\x1b[1;1H', '\x1b[38:5:1', '\x1b[', '\x1b', '\x9b31m', '\x1b]0;title\x07', '\x1b]8;;x\x1b\\',
                                        '\x1b[38;5;1;', '\x1b[:m', '\x1b[<1m', '\x1bP1$r\x1b\\', '\x1b(B', '\x1b[1 q']) + l[j:]
            out.append(l)
        return 'sgr-zoo', ('\n'.join(out) + '\n').encode('utf-8', 'surrogateescape')
    if k == 14:
        # combined diff coloured as git does, some lines in a moved-line colour (kept raw by delta)
        np_ = rng.choice([2, 2, 3])
        lines, _m, _p = corpus.gen_combined(rng, conflict=rng.random() < 0.4, nparents=np_)
        col = corpus.git_colorize_combined(lines, np_, rng.choice(['m', '0m']))
        col = [l.replace('\x1b[32m', '\x1b[1;35m').replace('\x1b[31m', '\x1b[1;34m') if rng.random() < 0.3 else l for l in col]
        return 'combined-colored', ('\n'.join(col) + '\n').encode()
    if k == 15:
        d = gen.gen_diff(rng)
        col = corpus.git_colorize(d.lines(), rng.choice(['default', 'ws']))
        col = [l.replace('\x1b[32m', '\x1b[%sm' % rng.choice(['1;35', '1;36', '38;5;208', '7;32'])) if rng.random() < 0.3 else l for l in col]
        return 'git-diff-moved-colors', ('\n'.join(col) + '\n').encode()
    if k <= 2:
        d = gen.gen_diff(rng, maxlen=rng.choice([40, 120]))
        return 'git-diff', d.text().encode()
    if k == 3:
        d = gen.gen_diff(rng, fmt=rng.choice(['plain', 'plainr']))
        return 'plain-diff', d.text().encode()
    if k == 4:
        lines, _m, _p = corpus.gen_combined(rng, conflict=rng.random() < 0.6, nparents=rng.choice([2, 2, 3]))
        return 'combined', ('\n'.join(lines) + '\n').encode()
    if k == 5:
        return 'blame', corpus.blame_text(corpus.gen_blame_model(rng)).encode()
    if k == 6:
        m = corpus.gen_grep_model(rng)
        return 'grep-plain', corpus.grep_text_plain(m, rng.random() < 0.7).encode()
    if k == 7:
        m = corpus.gen_grep_model(rng)
        return 'grep-color', corpus.grep_text_git_color(m, rng.random() < 0.7).encode()
    if k == 8:
        m = corpus.gen_grep_model(rng)
        return 'rg-json', corpus.rg_json_text(m).encode()
    if k == 9:
        out = []
        for _ in range(rng.randint(1, 3)):
            ls, _h = corpus.commit_header(rng)
            d = gen.gen_diff(rng, nsections=rng.randint(1, 2))
            if rng.random() < 0.5:
                ls += corpus.diffstat_lines(rng, [s.new_path for s in d.sections])
            out += ls + d.lines() + ['']
        return 'log-p', ('\n'.join(out) + '\n').encode()
    if k == 10:
        d = gen.gen_diff(rng)
        return 'git-diff-colored', ('\n'.join(corpus.git_colorize(d.lines(), rng.choice(['default', 'ws']))) + '\n').encode()
    if k == 11:
        n = rng.choice([0, 1, 10, 200, 3000])
        return 'random-bytes', bytes(rng.randrange(256) for _ in range(n))
    if k == 12:
        return 'text', '\n'.join(gen.rand_text(rng, 80) for _ in range(rng.randint(0, 12))).encode() + b'\n'
    # submodule + misc
    lines = ['diff --git a/sub b/sub', 'index 1111111..2222222 160000', '--- a/sub', '+++ b/sub', '@@ -1 +1 @@',
             '-Subproject commit ' + 'a' * 40, '+Subproject commit ' + 'b' * 40,
             'Submodule sub2 1234567..89abcde:', '  > commit msg', '  < other', 'Submodule x 1234567...89abcde (rewind):']
    return 'submodule', ('\n'.join(lines) + '\n').encode()


def run_miri():
    """Miri on the only unsafe function (utils/round_char_boundary.rs), exhaustively over short strings."""
    import subprocess
    d = os.path.join(runner.VERIF, 'harness', 'miri_rcb')
    env = dict(os.environ)
    env['CARGO_NET_OFFLINE'] = 'true'
    env.pop('RUSTFLAGS', None)
    p = subprocess.run(['cargo', '+nightly', 'miri', 'run', '--offline'], cwd=d, env=env, stdout=subprocess.PIPE, stderr=subprocess.PIPE,
                       timeout=900)
    out = p.stdout.decode('utf-8', 'replace')
    err = p.stderr.decode('utf-8', 'replace')
    sets = {'input_kinds': ['miri:floor_char_boundary'], 'sanitizers': ['miri']}
    if 'Undefined Behavior' in err or 'MISMATCH' in out:
        return [violated('miri:floor_char_boundary', 'Miri: ' + (out + err)[-600:], sets=sets)]
    m = __import__('re').search(r'miri_rcb ok strings=(\d+) calls=(\d+)', out)
    if p.returncode != 0 or not m:
        return [inconclusive('miri harness did not run: %s' % err[-300:], sets=sets)]
    o = held(sig='miri:floor_char_boundary', nontrivial=True, counters={'miri_calls': int(m.group(2))}, sets=sets,
             sample={'miri': 'floor_char_boundary over all strings of <= 4 code points from {1,2,3,4-byte} x all indices', 'calls': int(m.group(2))})
    return [o]


def run_sanitized(kind, seed):
    """The same workload on the ASan build / under valgrind memcheck (plain release build)."""
    rng = engine.item_rng(seed)
    opts, cls = gen.hostile_options(rng)
    args = gen.to_args(opts)
    outs = []
    n = 6 if kind == 'asan' else 2
    for _ in range(n):
        k, data = base_input(rng)
        if rng.random() < 0.6:
            data = corpus.mutate(rng, data)
        if len(data) > 20000:
            data = data[:20000]
        sets = {'input_kinds': [k], 'sanitizers': [kind], 'option_classes': cls}
        if kind == 'asan':
            res = runner.run_delta(args, data, variant='asan', timeout=60,
                                   env={'ASAN_OPTIONS': 'detect_leaks=0:halt_on_error=1:abort_on_error=0:exitcode=99'})
            err = res.err.decode('utf-8', 'replace')
            if 'AddressSanitizer' in err:
                first = [l for l in err.splitlines() if 'ERROR: AddressSanitizer' in l]
                outs.append(violated('asan:' + crashmod.normalise_message(first[0] if first else 'report'), 'AddressSanitizer report: ' + err[:600], run=res, sets=sets))
                continue
        else:
            res = runner.run_delta(args, data, variant='plain', timeout=300, parent_argv=None,
                                   wrapper=['valgrind', '-q', '--error-exitcode=97', '--leak-check=no', '--track-origins=no'])
            err = res.err.decode('utf-8', 'replace')
            if res.rc == 97 or '== Invalid' in err or 'uninitialised' in err:
                outs.append(violated('valgrind:' + crashmod.normalise_message(err.strip().splitlines()[0] if err.strip() else 'report'),
                                     'valgrind memcheck report: ' + err[:600], run=res, sets=sets))
                continue
        c = crashmod.classify(res)
        if c is not None and c['kind'] != 'timeout':
            from .. import findings
            if findings.lookup(ID, c['signature']) is None and res.rc not in (0, 2):
                outs.append(violated(c['signature'], 'crash under %s: %s' % (kind, c['detail']), run=res, sets=sets))
                continue
        if c is not None and c['kind'] == 'timeout':
            outs.append(inconclusive('watchdog under %s' % kind, sets=sets))
            continue
        outs.append(held(sig='%s:%s' % (kind, __import__('hashlib').sha1(data + repr(args).encode()).hexdigest()[:12]), nontrivial=len(data) > 0,
                         counters={kind + '_runs': 1}, sets=sets))
    return outs


def run_item(item):
    kind0, seed = item
    if kind0 == 'miri':
        return run_miri()
    if kind0 in ('asan', 'valgrind'):
        return run_sanitized(kind0, seed)
    if kind0 == 'huge':
        return run_huge(seed)
    if kind0 == 'staircase':
        return run_staircase(seed)
    rng = engine.item_rng(seed)
    opts, cls = gen.hostile_options(rng)
    args = gen.to_args(opts)
    mode = 'pty' if rng.random() < 0.12 else 'pipe'
    size = (rng.choice([1, 2, 24, 50]), rng.choice([1, 2, 3, 5, 10, 40, 80, 81, 200, 500]))
    if mode == 'pty' and '--dark' not in opts and '--light' not in opts:
        args = args + ['--dark']
    acc = runner.run_delta(args, b'', mode=mode, pty_size=size)
    if crashmod.classify(acc) is None and acc.rc != 0:
        return [inconclusive('option set rejected by delta before reading input (clean exit %d)' % acc.rc,
                             sets={'rejected_option': [acc.err.decode('utf-8', 'replace').strip().split('\n')[0][:80]]})]
    outs = []
    for j in range(INPUTS_PER_ITEM):
        kind, data = base_input(rng)
        if ('blamefmt' in cls or 'blamepal' in cls) and rng.random() < 0.5:
            # options that only blame output consults meet blame output
            kind, data = 'blame', corpus.blame_text(corpus.gen_blame_model(rng)).encode()
        elif 'greptype' in cls and rng.random() < 0.4:
            m = corpus.gen_grep_model(rng)
            kind, data = rng.choice([('grep-plain', corpus.grep_text_plain(m, True).encode()), ('rg-json', corpus.rg_json_text(m).encode())])
        if rng.random() < 0.08:
            # two inputs of different kinds back to back (state carried from one construct kind into another)
            kind2, data2 = base_input(rng)
            kind, data = kind + '+' + kind2, data + data2
        nm = 0
        if rng.random() < 0.75:
            data = corpus.mutate(rng, data)
            nm = 1
        parent = choose_parent(rng, kind)
        env = {}
        if rng.random() < 0.15:
            env['GIT_PREFIX'] = rng.choice(['src/', 'a/b/', '../', '/', ''])
        if rng.random() < 0.1:
            env['COLUMNS'] = rng.choice(['0', '1', '7', '100000', 'x', '-3'])
        if rng.random() < 0.05:
            env['DELTA_FEATURES'] = rng.choice(['+side-by-side', 'line-numbers decorations', '+', 'nonexistent', '+navigate raw'])
        outs.append(check_one(args, data, mode, size, kind, cls, nm, parent=parent, env=env, trace=rng.random() < 0.1, measure_rss=rng.random() < 0.1))
    if crashmod.classify(acc) is not None:
        outs.append(check_one(args, b'', mode, size, 'empty', cls, 0))
    return outs


def run_staircase(seed):
    """Side-by-side wrapping of syntax-highlighted lines is done twice (syntax sections, diff sections) and the two results must
    line up: a staircase of lines that differ by one leading blank each puts every character of the line - a combining mark
    right after a quote, a wide character, a zero-width joiner between two tokens - on the wrap column of some line."""
    rng = engine.item_rng(seed)
    ext, mk = rng.choice([('rs', lambda t: 'let s = "%s"; // %s' % (t, t)), ('py', lambda t: "s = '%s'  # %s" % (t, t)), ('js', lambda t: 'const s = `%s`; /* %s */' % (t, t)),
                          ('c', lambda t: 'char *s = "%s"; /* %s */' % (t, t)), ('md', lambda t: '*%s* `%s`' % (t, t))])
    mark = rng.choice(['\u0301', '\u20dd', '\u200d', '\ufe0f', '\u0301\u0302', '\u3099'])
    text = rng.choice([mark + 'abc def', 'x' + mark + 'yz', '\u6f22' + mark + '\u5b57', mark, 'e' + mark + ' ' + mark + 'f', '\U0001f469\u200d\U0001f4bb ok'])
    body = mk(text) + ' ' + 'tail ' * rng.randint(0, 12)
    nlines = rng.randint(12, 40)
    role = rng.choice([' ', ' ', ' ', '-', '+', 'mixed'])
    lines = ['diff --git a/src/stair.%s b/src/stair.%s' % (ext, ext), 'index 1111111..2222222 100644', '--- a/src/stair.%s' % ext, '+++ b/src/stair.%s' % ext,
             '@@ -1,%d +1,%d @@' % (nlines, nlines)]
    for i in range(nlines):
        k = role if role != 'mixed' else rng.choice(' -+')
        lines.append(k + ' ' * i + body)
    args = ['--paging', 'never', '--side-by-side', '--width', str(rng.choice([30, 36, 40, 41, 50, 60, 72, 80])), '--syntax-theme', rng.choice(gen.THEMES_DARK + gen.THEMES_LIGHT)]
    if rng.random() < 0.5:
        args += ['--wrap-max-lines', rng.choice(['unlimited', '1', '3', '5'])]
    if rng.random() < 0.3:
        args += ['--line-numbers-left-format', '', '--line-numbers-right-format', '']
    if rng.random() < 0.3:
        args += ['--tabs', str(rng.choice([0, 1, 4]))]
    data = ('\n'.join(lines) + '\n').encode('utf-8')
    return [check_one(args, data, 'pipe', (24, 80), 'staircase', ['staircase', 'sbs'], 0)]


def run_huge(seed):
    """Enormous lines and hunks: must terminate, with memory in proportion."""
    rng = engine.item_rng(seed)
    for _attempt in range(6):
        # an option set that delta accepts (most rejections are found with an empty input)
        opts, cls = gen.hostile_options(rng)
        for k in ('--max-line-length', '--wrap-max-lines'):
            opts.pop(k, None)
        probe = runner.run_delta(gen.to_args(opts), b'')
        if probe.rc == 0:
            break
    shape = rng.choice(['line-1MB', 'line-1MB-wide', 'hunk-100k', 'hunk-100k-plus-only', 'many-files', 'blame-50k', 'grep-50k', 'text-200k', 'many-tokens', 'many-tokens'])
    unit = rng.choice(['x', 'ab ', '\t', '日本', 'e\u0301', '\x1b[31mq\x1b[m', '😀'])
    head = 'diff --git a/f.rs b/f.rs\n--- a/f.rs\n+++ b/f.rs\n'
    parent = None
    if shape.startswith('line-1MB'):
        n = (1 << 20) // len(unit.encode())
        body = '@@ -1,2 +1,2 @@\n-%s\n+%sz\n ctx\n' % (unit * n, unit * n)
        if shape.endswith('wide'):
            opts['--side-by-side'] = True
        text = head + body
    elif shape == 'many-tokens':
        # lines of thousands of tokens (minified code) with no length limit: the table that aligns a removed with an added line
        # is bounded, pairs that would exceed it are not compared - the lines are still lines of their own
        nt = rng.choice([2200, 4200, 6000])
        m = ' '.join('w%d' % i for i in range(nt))
        p0 = ' '.join('v%d' % i for i in range(nt))
        p1 = ' '.join('w%d' % i for i in range(rng.choice([300, 900, nt // 2])))
        order = rng.choice([[('-', m), ('+', p0), ('+', p1)], [('-', m), ('-', p0), ('+', p1)], [('-', p0), ('-', m), ('+', p0 + ' x'), ('+', p1)]])
        text = head + '@@ -1,%d +1,%d @@\n' % (sum(1 for k, _ in order if k == '-') + 1, sum(1 for k, _ in order if k == '+') + 1) + \
            ''.join(k + t + '\n' for k, t in order) + ' ctx\n'
        opts['--max-line-length'] = 0
        opts.pop('--side-by-side', None)
    elif shape == 'hunk-100k':
        text = head + '@@ -1,100000 +1,100000 @@\n' + ''.join(' c%d\n-m%d\n+p%d\n' % (i, i, i) for i in range(34000))
    elif shape == 'hunk-100k-plus-only':
        text = head + '@@ -0,0 +1,100000 @@\n' + ''.join('+p%d %s\n' % (i, unit) for i in range(100000))
    elif shape == 'many-files':
        text = ''.join('diff --git a/f%d.rs b/f%d.rs\n--- a/f%d.rs\n+++ b/f%d.rs\n@@ -1 +1 @@\n-a\n+b\n' % (i, i, i, i) for i in range(8000))
    elif shape == 'blame-50k':
        text = ''.join('%08x (Ann 2020-01-01 00:00:00 +0000 %d) code %d\n' % (i % 97 + 0x10000000, i + 1, i) for i in range(50000))
        parent = ['git', 'blame', 'f.rs']
    elif shape == 'grep-50k':
        text = ''.join('src/f%d.rs:%d:fn f%d() {}\n' % (i % 50, i + 1, i) for i in range(50000))
        parent = ['git', 'grep', '-n', 'fn']
    else:
        text = ''.join('plain text line %d %s\n' % (i, unit) for i in range(200000))
    o = check_one(gen.to_args(opts), text.encode('utf-8'), 'pipe', (24, 80), 'huge:' + shape, cls, 0, parent=parent, timeout=240, measure_rss=True)
    o.setdefault('counters', {})['huge_inputs'] = 1
    return [o]


def check_one(args, data, mode, size, kind, cls, mutated, variant='hooks', parent=None, env=None, trace=False, timeout=20, measure_rss=False):
    kw = {'parent_argv': parent} if parent else {}
    if measure_rss:
        kw['measure_rss'] = True
    res = runner.run_delta(args, data, mode=mode, pty_size=size, timeout=timeout, variant=variant, env=env or None, trace=trace, **kw)
    sets = {'input_kinds': [kind.split('+')[0]], 'option_classes': cls, 'mode': [mode], 'calling_process': [' '.join(parent[:3]) if parent else 'none'],
            'env': sorted(env or {})}
    counters = {'input_bytes': len(data), 'mutated': mutated}
    c = crashmod.classify(res)
    if c is not None and c['kind'] == 'timeout':
        tabw = min(int(args[args.index('--tabs') + 1]), 255) if '--tabs' in args and args[args.index('--tabs') + 1].isdigit() else 8
        widest = max((len(l) + (tabw - 1) * l.count(b'\t') for l in data.split(b'\n')), default=0)
        if '--side-by-side' in args and widest > 20000:
            # wrapping a line into n rows costs O(n^2) (every row re-segments the rest of the line): a line that is tens of
            # thousands of columns wide after tab expansion is finite but takes minutes; decided on the input, not on the clock
            return inconclusive('slow: side-by-side wrapping of a line %d columns wide (quadratic cost), watchdog fired' % widest,
                                counters=counters, sets=sets)
        if '--max-syntax-highlighting-length' in args and args[args.index('--max-syntax-highlighting-length') + 1] == '0' and widest > 20000:
            # the limit that keeps the syntax highlighter away from very long lines (default 400) has been switched off by the
            # option set itself: syntect needs minutes for a line of several hundred thousand columns - finite, and asked for
            return inconclusive('slow: syntax highlighting of a line %d columns wide with --max-syntax-highlighting-length 0, watchdog fired' % widest,
                                counters=counters, sets=sets)
    if c is not None and c['kind'] == 'timeout':
        if len(data) < 200000:
            # a watchdog is not a verdict: the run is repeated with a longer limit, and it only counts as a hang when it
            # made no progress at all (not one more byte of output) in the additional time
            res2 = runner.run_delta(args, data, mode=mode, pty_size=size, timeout=max(60, 3 * timeout), variant=variant, env=env or None, **kw)
            c2 = crashmod.classify(res2)
            if c2 is not None and c2['kind'] == 'timeout':
                if len(res2.out) > len(res.out):
                    return inconclusive('slow: still producing output when the watchdog fired (%d bytes after %d s, %d bytes after %d s)'
                                        % (len(res.out), timeout, len(res2.out), max(60, 3 * timeout)), counters=counters, sets=sets)
                return violated('hang', 'no termination within %d s on an input of %d bytes, and no output was produced after the first %d s'
                                % (max(60, 3 * timeout), len(data), timeout), run=res2, counters=counters, sets=sets)
            res, c = res2, c2
        else:
            return inconclusive('watchdog on a large input', counters=counters, sets=sets)
    if c is not None:
        return violated(c['signature'], 'crash: ' + c['detail'], run=res, counters=counters, sets=sets,
                        extra={'input_kind': kind})
    if res.rc == 2 and res.err.strip() and b'panicked' not in res.err and len(res.err) < 400:
        # a value that delta validates only when the option is first used (grep/blame styles, wrap settings): the option
        # set is not one "that delta accepts"; the rejection is clean (message + status 2)
        return inconclusive('option set rejected when first used (clean exit 2)', counters=counters,
                            sets=dict(sets, rejected_option=[res.err.decode('utf-8', 'replace').strip().split('\n')[0][:80]]))
    if res.rc != 0:
        return violated('exit:%d:%s' % (res.rc, crashmod.normalise_message(res.err.decode('utf-8', 'replace').strip().split('\n')[0] if res.err.strip() else '')),
                        'non-zero exit status %d in stdin mode: %s' % (res.rc, res.err[:200]), run=res,
                        counters=counters, sets=sets)
    if not res.stdin_accepted:
        return violated('stdin-not-consumed', 'delta exited 0 without consuming its whole input', run=res,
                        counters=counters, sets=sets)
    if trace and res.trace is not None:
        # hook 1 records every line the state machine ingests: the whole input must have gone through it
        nl = len(data.split(b'\n')) - (1 if data.endswith(b'\n') or not data else 0)
        seen = sum(1 for t in res.trace if t.startswith('line '))
        ended = any(t.startswith('end ') for t in res.trace)
        counters['ingest_traces'] = 1
        if res.trace and (seen != nl or not ended):
            return violated('input-not-fully-ingested', 'the state machine handled %d of %d input lines (end record: %s) although delta exited 0' % (seen, nl, ended),
                            nl, seen, run=res, counters=counters, sets=sets)
    # (constant part: the alignment table of two lines at the maximum line length alone takes up to 2^24 cells of 24 bytes)
    if getattr(res, 'hwm_kb', None) and res.hwm_kb * 1024 > (512 << 20) + 48 * len(data):
        return violated('runaway-allocation', 'resident-set high-water mark %d KB for %d input bytes' % (res.hwm_kb, len(data)),
                        run=res, counters=counters, sets=sets)
    if res.maxrss_kb and res.maxrss_kb * 1024 > (512 << 20) + 64 * len(data):
        return violated('runaway-allocation', 'peak RSS %d KB for %d input bytes' % (res.maxrss_kb, len(data)),
                        run=res, counters=counters, sets=sets)
    if b'panicked at' in res.err:
        return violated('panic-message-with-exit-0', 'panic message on stderr', run=res, counters=counters, sets=sets)
    import hashlib
    sig = hashlib.sha1(data + repr(args).encode()).hexdigest()[:16]
    sample = None
    if len(data) < 300:
        sample = {'args': args[-10:], 'input': data.decode('utf-8', 'replace'), 'kind': kind}
    return held(sig=sig, nontrivial=len(data) > 0, counters=counters, sets=sets, sample=sample)


def floors(ctx, agg):
    p = []
    if len(agg.sets.get('input_kinds', ())) < 10:
        p.append('fewer than 10 input kinds exercised')
    if len(agg.sets.get('calling_process', ())) < 12:
        p.append('fewer than 12 calling processes exercised')
    if agg.counters.get('ingest_traces', 0) < 100:
        p.append('fewer than 100 runs whose hook trace was compared with the input line count')
    if agg.counters.get('huge_inputs', 0) < 4:
        p.append('fewer than 4 huge inputs')
    return p
