"""C07 - side-by-side view: correct panels, fixed geometry, lossless wrapping."""
from .. import engine, gen, rows, runner, sbs, term
from ..engine import held, inconclusive, violated, crash_outcome

ID = 'C07'
LEVEL = 'exploration'
RULE = ('two-way diffs whose line widths straddle the panel edge (w-2..w+2, 2w, 5w), with double-width/combining characters and '
        'tabs, all sub-hunk shapes x side-by-side option sets (widths 40..200 even and odd, wrap limits 0/1/2/3/5/unlimited, wrap '
        'symbols, right-align threshold, number formats incl. none, markers, both fill methods, pipe and pty); per row: width, '
        'panel boundary column, line kinds per panel; per line and side: reassembly of the fragments; distinct = (hunk line-kind '
        'string, option classes, which lines wrap); non-trivial = at least one line wraps or is truncated')
ASSUMPTIONS = ['rows and wrap symbols are recognised by reserved colours (inline-hint-style is given a background for this)',
               'width model: East Asian Wide/Fullwidth = 2, combining marks = 0, everything else used here = 1']
CHUNK = 6


def plan(ctx):
    n = ctx.n(7000, 150000)
    return [('case', engine.stable_hash((ctx.seed, 'c07', i))) for i in range(n)]


def edge_text(rng, target_w, tabs_ok):
    """A line whose display width is close to target_w."""
    parts = []
    w = 0
    while w < target_w:
        r = rng.random()
        if r < 0.55:
            tok = rng.choice(gen.WORDS)
        elif r < 0.7:
            tok = rng.choice(gen.PUNCT)
        elif r < 0.8:
            tok = rng.choice(gen.CJK)
        elif r < 0.84:
            tok = rng.choice(gen.COMBINING)
        elif r < 0.87:
            tok = rng.choice(gen.EMOJI)
        elif r < 0.9 and tabs_ok:
            tok = '\t'
        else:
            tok = ' '
        parts.append(tok)
        if rng.random() < 0.5:
            parts.append(' ')
        w = term.text_width(''.join(parts).replace('\t', '    '))
    s = ''.join(parts)
    return s


def make_case(seed):
    rng = engine.item_rng(seed)
    opts, meta = gen.sbs_options(rng)
    W = meta['width']
    mode = 'pipe'
    if rng.random() < 0.2:
        mode = 'pty'
        opts.pop('--width')
        if '--dark' not in opts and '--light' not in opts:
            opts['--dark'] = True
    if 'no-ln' in meta['classes'] and rng.random() < 0.5:
        # line numbers switched off in the configuration (side-by-side = true, line-numbers = false) instead of by empty
        # formats: the gutters are then built on another path (LineNumbersData::empty_for_sbs)
        opts.pop('--line-numbers-left-format', None)
        opts.pop('--line-numbers-right-format', None)
        opts['--config'] = runner.write_file('c07_noln.gitconfig', '[delta]\n    line-numbers = false\n')
        meta['classes'] = meta['classes'] + ['no-ln-by-config']
    if rng.random() < 0.5 and str(opts.get('--wrap-max-lines', '2')) in ('unlimited', '∞', 'inf'):
        # (with a finite number of rows delta raises the limit to what those rows can hold plus a margin and cuts there)
        # (with wrapping switched off the maximum line length is the only limit and cuts before the panel edge)
        # a small maximum line length: in side-by-side mode it may not cut a line before the allowed wrapped rows are used up
        opts['--max-line-length'] = rng.choice([20, 60, 150, 400])
        meta['classes'] = meta.get('classes', []) + ['small-max-line-length']
    panel = W // 2
    # available text width per panel, roughly (gutter ~6)
    avail = max(4, panel - 6)
    secs = []
    for _ in range(rng.choice([1, 1, 2])):
        s = gen.gen_section(rng, 'modified', simple_paths=True, maxlines=8, maxlen=30)
        for h in s.hunks:
            new = []
            for k, t in h.lines:
                if k == '\\':
                    continue
                r = rng.random()
                if r < 0.45:
                    tw = rng.choice([avail - 2, avail - 1, avail, avail + 1, avail + 2, 2 * avail, 2 * avail + 1, 3 * avail,
                                     5 * avail])
                    t = edge_text(rng, max(1, tw), meta['tabs'] in (1, 2, 4, 8) and rng.random() < 0.3)
                if r >= 0.45 and r < 0.5 and str(opts.get('--wrap-max-lines', '2')) in ('unlimited', '∞', 'inf', '0'):
                    # a very regular line that needs dozens of rows (a list of numbers with another separator on the other
                    # side): every row ends on a boundary between two style sections
                    n_items = (rng.choice([18, 25, 40]) * avail) // 2
                    sep = {'-': ',', '+': ';', ' ': '+'}[k]
                    t = sep.join(str(i % 10) for i in range(max(4, n_items)))
                    if 'many-rows-regular' not in meta['classes']:
                        meta['classes'] = meta['classes'] + ['many-rows-regular']
                if (opts.get('--line-numbers-right-format') == '' or 'no-ln-by-config' in meta['classes']) and t[:1] in gen.LEADING_EXTENDERS:
                    # without a gutter between the panels a zero-width character that opens the right panel cannot be told
                    # from one that closes the left panel
                    t = t.lstrip(''.join(gen.LEADING_EXTENDERS)) or 'x'
                new.append((k, t))
            # paired long lines: make plus similar to minus sometimes
            for i in range(len(new) - 1):
                if new[i][0] == '-' and new[i + 1][0] == '+' and rng.random() < 0.5:
                    new[i + 1] = ('+', gen.mutate_text(rng, new[i][1]))
            h.lines = new or [(' ', 'x')]
        secs.append(s)
    d = gen.Diff(secs)
    return d, opts, meta, mode, W


def exp_text(kind, text, meta):
    t = rows.expand_tabs(text, meta['tabs'])
    if meta['markers']:
        t = kind + t
    return t


def check_output(d, meta, W, out, counters, wrapped_kinds):
    infos = rows.classify_all(out)
    syms = meta['syms']
    max_rows = None
    wm = meta['wrap_max']
    if wm not in ('unlimited',):
        max_rows = int(wm) + 1
    # split rows into hunks by hunk-header rows
    hunks_rows = []
    cur = None
    for info in infos:
        if info.kind == 'hunk':
            cur = []
            hunks_rows.append(cur)
        elif info.kind == 'file':
            cur = None
        elif info.kind == 'code':
            if cur is None:
                return 'code-before-hunk-header', 'code row before any hunk header row', None, repr(info)
            cur.append(info)
        elif info.kind == 'text' and cur is not None:
            cur.append(info)
    model_hunks = [h for s in d.sections for h in s.hunks]
    if len(hunks_rows) != len(model_hunks):
        return 'hunk-count', 'number of hunk header rows differs from the number of hunks', len(model_hunks), len(hunks_rows)
    half = W // 2
    for h, hrows in zip(model_hunks, hunks_rows):
        parsed = []
        for info in hrows:
            if info.kind != 'code':
                return 'untagged-row-in-hunk', 'a row inside a hunk carries no line-kind colour', None, repr(info)
            row = info.row
            rw = row.width()
            counters['rows'] += 1
            if rw > W:
                return 'row-too-wide', 'row of code is %d columns wide, configured width is %d' % (rw, W), W, row.text()
            L, R, ok = sbs.parse_sbs_row(row, W, syms)
            if not ok:
                return 'panel-boundary', 'a cell straddles the column where the right panel starts (%d)' % half, half, row.text()
            if L.width != half and (R.cells or row.fills):
                return 'left-panel-width', 'left panel is %d columns wide instead of %d, so the right panel is shifted' % (L.width, half), half, row.text()
            # right panel must be empty or start exactly at column `half`: guaranteed by the split when the left panel is full
            if '+' in L.kinds:
                return 'plus-in-left-panel', 'added-line cells in the left panel', None, row.text()
            if '-' in R.kinds:
                return 'minus-in-right-panel', 'removed-line cells in the right panel', None, row.text()
            # a tagged fill at the end of the row belongs to the right panel
            rkind = R.kind
            if rkind is None and not R.code_cells and row.fills:
                f = rows.family_of(gen.TAG_BY_RGB.get(row.fills[-1][2][1]))
                if f is not None:
                    rkind = f
                    R.kinds = {f}
                    R.kind = f
            parsed.append((L, R, row))
        res = check_hunk(h, parsed, meta, max_rows, counters, wrapped_kinds)
        if res is not None:
            return res
    return None


def has_cluster(text):
    import unicodedata
    return any(unicodedata.combining(ch) or ch in '\u200d\ufe0f\ufe0e' for ch in text)


PAIRED_TAGS = {'minus_emph', 'minus_nonemph', 'plus_emph', 'plus_nonemph'}


def side_stream(parsed, side):
    out = []
    for idx, (L, R, row) in enumerate(parsed):
        p = L if side == 0 else R
        if p.kind is None and not p.has_wrap and not p.truncated:
            continue   # filler panel
        out.append((idx, p))
    return out


def check_hunk(h, parsed, meta, max_rows, counters, wrapped_kinds):
    lines = [(k, t) for k, t in h.lines if k != '\\']
    first_rows = {0: [], 1: []}
    paired_rows = {0: [], 1: []}
    for side, kinds in ((0, '- '), (1, '+ ')):
        expected = [(k, t) for k, t in lines if k in kinds]
        stream = side_stream(parsed, side)
        i = 0
        sname = 'left' if side == 0 else 'right'
        for (k, t) in expected:
            if i >= len(stream):
                return 'line-missing:' + sname, 'a %r line is missing from the %s panel' % (k, sname), exp_text(k, t, meta), 'end of hunk rows'
            exp = exp_text(k, t, meta)
            frags = []
            nrows = 0
            first_idx = stream[i][0]
            prev_idx = None
            truncated = False
            while True:
                if i >= len(stream):
                    return 'line-cut:' + sname, 'a wrapped %r line ends without its last fragment' % k, exp, ''.join(frags)
                idx, p = stream[i]
                if prev_idx is not None and idx != prev_idx + 1:
                    return 'fragments-not-consecutive:' + sname, 'fragments of a wrapped line are not on consecutive rows', exp, ''.join(frags)
                if p.kind not in (k, None):
                    return 'wrong-kind:' + sname, 'expected a %r line in the %s panel, found kind %r' % (k, sname, p.kind), exp, p.text()
                cells = list(p.code_cells)
                if nrows > 0 and meta['markers'] and cells and not p.right_prefix:
                    # continuation rows carry a blank marker column when markers are kept
                    if cells[0].ch != ' ':
                        return 'continuation-marker:' + sname, 'continuation row does not start with a blank marker column', ' ', cells[0].ch
                    cells = cells[1:]
                elif nrows > 0 and meta['markers'] and p.right_prefix and cells and cells[0].ch == ' ' and False:
                    cells = cells[1:]
                frag = ''.join(c.ch for c in cells)
                if nrows > 0:
                    # continuation rows carry no line number
                    for tag, txt in p.fields:
                        if txt.strip():
                            return 'number-on-continuation-row:' + sname, 'a continuation row of a wrapped line carries a line number', '', txt
                frags.append(frag)
                nrows += 1
                prev_idx = idx
                i += 1
                if p.truncated:
                    truncated = True
                    break
                if not p.has_wrap:
                    break
                # padding after the wrap symbol must be blank
                if any(c.ch.strip() for c in p.after_wrap_cells):
                    return 'text-after-wrap-symbol:' + sname, 'non-blank cells after the wrap symbol', '', ''.join(c.ch for c in p.after_wrap_cells)
            shown = ''.join(frags)
            first_rows[side].append((k, first_idx))
            if k in '-+':
                fp = stream[i - nrows][1]
                if any(gen.TAG_BY_RGB.get(c.bg) in PAIRED_TAGS for c in fp.code_cells):
                    paired_rows[side].append(first_idx)
            if nrows > 1 or truncated:
                wrapped_kinds.add(k)
                counters['wrapped_lines'] += 1
            counters['lines_reassembled'] += 1
            if truncated:
                counters['truncated_lines'] += 1
                # known finding: a line holding a grapheme cluster of several code points (letter + combining mark, ZWJ or
                # variation-selector sequence) is left unwrapped, and therefore cut after its first row, when the syntax and
                # the diff sections of the line split that cluster differently
                cluster = ':line-with-multi-codepoint-grapheme:cut-after-first-row' if nrows == 1 and has_cluster(exp) else ''
                if max_rows is None:
                    return 'truncated-although-unlimited:' + sname + cluster, 'line cut although the number of wrapped rows is unlimited', exp, shown
                if nrows != max_rows:
                    return 'truncated-early:' + sname + cluster, 'line cut after %d rows, limit allows %d' % (nrows, max_rows), exp, shown
                sh = shown.rstrip(' ')
                if not (exp.startswith(sh) or (sh.endswith(' ') and exp.startswith(sh.rstrip(' ')))):
                    # a double-width character cut in half is replaced by a blank
                    s2 = sh
                    ok = False
                    while s2.endswith(' ') or s2 != sh:
                        break
                    k2 = len(sh)
                    while k2 > 0 and not exp.startswith(sh[:k2]):
                        k2 -= 1
                    rest = sh[k2:]
                    if rest.strip(' ') == '' and k2 < len(exp) and term.char_width(exp[k2]) == 2:
                        ok = True
                    if not ok:
                        return 'truncated-text-not-prefix:' + sname, 'text shown before the truncation mark is not a prefix of the line', exp, shown
            else:
                if not (shown.startswith(exp) and shown[len(exp):].strip(' ') == ''):
                    # wide char at panel edge: wrap pads one blank before the symbol; it is then inside a fragment
                    if not loose_equal(shown, exp):
                        return 'reassembly:' + sname, 'joining the fragments of a %r line does not give back the line' % k, exp, shown
                if max_rows is not None and nrows > max_rows:
                    return 'too-many-rows:' + sname, 'line occupies %d rows, limit is %d' % (nrows, max_rows), max_rows, nrows
        if i != len(stream):
            idx, p = stream[i]
            return 'extra-line:' + sname, 'extra content in the %s panel after the last expected line' % sname, None, p.text()
    # zero lines share rows
    zl = [r for k, r in first_rows[0] if k == ' ']
    zr = [r for k, r in first_rows[1] if k == ' ']
    if zl != zr:
        return 'zero-row-sharing', 'an unchanged line does not start on the same row in both panels', zl, zr
    # lines painted as having a partner (emphasis / non-emphasis styles) start on the row on which their partner starts
    if all(t.strip() for k, t in lines if k in '-+') and paired_rows[0] != paired_rows[1]:
        return 'paired-lines-not-on-one-row', 'removed and added lines that are painted as a pair do not start on the same rows', paired_rows[0], paired_rows[1]
    counters['paired_rows_checked'] = counters.get('paired_rows_checked', 0) + len(paired_rows[0])
    return None


def loose_equal(shown, exp):
    """Equal up to blanks inserted where a double-width character did not fit before the panel edge."""
    i = j = 0
    while i < len(shown) and j < len(exp):
        if shown[i] == exp[j]:
            i += 1
            j += 1
        elif shown[i] == ' ' and term.char_width(exp[j]) == 2:
            i += 1
        else:
            return False
    return j == len(exp) and shown[i:].strip(' ') == ''


def run_item(item):
    _, seed = item
    d, opts, meta, mode, W = make_case(seed)
    res = runner.run_delta(gen.to_args(opts), d.text().encode(), mode=mode, pty_size=(30, W))
    c = crash_outcome(res, ID)
    if c is not None:
        return c
    if res.rc != 0:
        return inconclusive('exit %d: %s' % (res.rc, res.err[:120]))
    counters = {'rows': 0, 'lines_reassembled': 0, 'wrapped_lines': 0, 'truncated_lines': 0}
    wrapped_kinds = set()
    sets = {'option_classes': meta['classes'], 'mode': [mode], 'widths': [W]}
    bad = check_output(d, meta, W, res.out, counters, wrapped_kinds)
    if bad is not None:
        key, what, exp, obs = bad
        return violated('c07:' + key, what, exp, obs, run=res, counters=counters, sets=sets)
    shape = tuple(''.join(k for k, _ in h.lines) for s in d.sections for h in s.hunks)
    return held(sig=(shape, tuple(sorted(meta['classes'])), tuple(sorted(wrapped_kinds))),
                nontrivial=counters['wrapped_lines'] > 0, counters=counters, sets=sets,
                sample={'width': W, 'args_tail': gen.to_args(opts)[-10:], 'hunk_shapes': shape[:3],
                        'wrapped_lines': counters['wrapped_lines'], 'truncated_lines': counters['truncated_lines']})


def floors(ctx, agg):
    p = []
    if agg.counters.get('wrapped_lines', 0) < 2000:
        p.append('fewer than 2000 wrapped lines reassembled')
    if agg.counters.get('truncated_lines', 0) < 200:
        p.append('fewer than 200 truncated lines seen')
    return p
