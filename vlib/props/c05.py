"""C05 - displayed line numbers are the true old/new file line numbers."""
from .. import engine, gen, rows, runner, sbs, term
from ..engine import held, inconclusive, violated, crash_outcome
from . import c07

ID = 'C05'
LEVEL = 'exploration'
RULE = ('two-way multi-file multi-hunk diffs with start positions from {1,2,9,10,99,100,999,1000,10^6-1,10^6,2^31}, zero-length '
        'sides, omitted counts, all sub-hunk shapes, lines that wrap; unified view with -n and side-by-side view; number formats '
        'from the family prefix{nm|np[:align width]}suffix incl. both placeholders in one format; hunk-header styles with/'
        'without file and line-number; expected numbers are computed from the model; distinct = (view, format class, start '
        'positions, hunk line-kind strings); non-trivial = hunk has both removed and added lines')
ASSUMPTIONS = ['number fields are recognised by the reserved colours of line-numbers-{minus,plus,zero}-style; delimiters in the '
               'format strings never occur as number-styled text']
CHUNK = 6

STARTS = [1, 1, 2, 9, 10, 99, 100, 999, 1000, 999999, 1000000, 2147483648]
SPECS = ['', ':^4', ':>3', ':<5', ':>1', ':^7', ':>6', ':>4.2', ':^6.3', ':<5.1', ':_^7', ':*>5']
DELIMS = ['⋮', '│', '┊', '‖', '|', ':']


def plan(ctx):
    n = ctx.n(7000, 120000)
    return [('case', engine.stable_hash((ctx.seed, 'c05', i))) for i in range(n)]


def gen_formats(rng, view):
    """Returns (left_fmt, right_fmt, left_order, right_order) where *_order lists the placeholders in order."""
    r = rng.random()
    d1, d2 = rng.choice(DELIMS), rng.choice(DELIMS)
    s1, s2 = rng.choice(SPECS), rng.choice(SPECS)
    if r < 0.6:
        return '{nm%s}%s' % (s1, d1), '{np%s}%s' % (s2, d2), ['nm'], ['np'], 'std'
    if r < 0.75:
        return '%s{nm%s}%s{np%s}%s' % (d1, s1, d2, s2, d1), '', ['nm', 'np'], [], 'both-left'
    if r < 0.85:
        return '{np%s}%s' % (s1, d1), '{nm%s}%s' % (s2, d2), ['np'], ['nm'], 'swapped'
    if r < 0.93:
        return '{nm%s}%s' % (s1, d1), '', ['nm'], [], 'nm-only'
    return '', '{np%s}%s' % (s2, d2), [], ['np'], 'np-only'


def make_case(seed):
    rng = engine.item_rng(seed)
    view = 'sbs' if rng.random() < 0.45 else 'unified'
    if view == 'sbs':
        opts, meta = gen.sbs_options(rng, line_numbers=True)
    else:
        opts, meta = gen.unified_options(rng, allow_raw_headers=False)
        opts['--line-numbers'] = True
        for k in ('--diff-highlight', '--diff-so-fancy', '--max-line-length'):
            opts.pop(k, None)
        meta['max_line_length'] = 3000
    lf, rf, lo, ro, fcls = gen_formats(rng, view)
    opts['--line-numbers-left-format'] = lf
    opts['--line-numbers-right-format'] = rf
    meta['orders'] = (lo, ro)
    meta['fmt_class'] = fcls
    hh = rng.choice(['line-number', 'file line-number', 'file', 'line-number file bold', ''])
    if view == 'sbs' and hh == '':
        hh = 'line-number'
    label = opts.get('--hunk-label', '•' if opts.get('--navigate') else '')
    meta['hunk_label'] = label
    opts['--hunk-header-style'] = (gen.TAGS['hh'] + ' ' + hh).strip()
    meta['hh'] = hh
    secs = []
    for _ in range(rng.choice([1, 1, 2, 3])):
        kind = rng.choice(['modified', 'modified', 'modified', 'added', 'deleted', 'renamed_changed', 'mode_changed'])
        s = gen.gen_section(rng, kind, simple_paths=True, maxlines=10, maxlen=rng.choice([30, 30, 80]))
        if kind in ('modified', 'renamed_changed', 'mode_changed'):
            # restart hunks at interesting positions
            o = rng.choice(STARTS)
            n = max(1, o + rng.randint(-1, 2)) if rng.random() < 0.7 else rng.choice(STARTS)
            for h in s.hunks:
                h.lines = [(k, t) for k, t in h.lines if k != '\\'] or [(' ', 'x')]
                h.old_start, h.new_start = o, n
                oc, nc = h.counts()
                if oc == 0:
                    h.old_start = max(0, o - 1)
                if nc == 0:
                    h.new_start = max(0, n - 1)
                h.omit_counts = rng.random() < 0.4
                gap = rng.randint(1, 40)
                o += oc + gap
                n += nc + gap
        secs.append(s)
    d = gen.Diff(secs)
    r3 = engine.item_rng(engine.stable_hash((seed, 'c05-plain')))
    meta['plain_stripped'] = False
    if r3.random() < 0.08 and all(s.kind == 'modified' for s in secs):
        # `diff -u` output (no 'diff --git' line) whose empty unchanged lines lost their blank (diff -u --suppress-blank-empty,
        # or trailing white space stripped on the way): still lines of both files, numbered like any unchanged line
        for s in secs:
            for h in s.hunks:
                h.lines = [(k, '' if k == ' ' and r3.random() < 0.5 else t) for k, t in h.lines]
        d = gen.Diff(secs, fmt='plain')
        meta['plain_stripped'] = True
    mode = 'pipe'
    W = meta.get('width', 80)
    # input coloured by the producer in other than git's default red/green (git diff --color-moved, a custom palette): delta
    # keeps such lines as they are ("raw" lines), on another path through the painters. The colours used here are the
    # reserved ones of the same line kinds, so that the rows are classified as usual
    meta['raw_colored'] = (not meta.get('markers')) and rng.random() < 0.2 and not meta['plain_stripped']
    return d, opts, meta, view, mode, W


def input_bytes(d, meta, seed):
    if meta.get('plain_stripped'):
        # (... followed by what a script prints after its diff: an empty line and a line of text are not lines of the hunk)
        tail = '\n%s\n' % engine.item_rng(seed).choice(['2 files differ', 'done.', 'summary: ok']) if seed % 2 else ''
        return ('\n'.join('' if l == ' ' else l for l in d.lines()) + '\n' + tail).encode()
    if not meta.get('raw_colored'):
        return d.text().encode()
    rng = engine.item_rng(engine.stable_hash((seed, 'c05-raw')))

    def bg(name):
        h = gen.TAGS[name]
        return '\x1b[48;2;%d;%d;%dm' % (int(h[1:3], 16), int(h[3:5], 16), int(h[5:7], 16))
    out = []
    for role, l in d.role_lines():
        if role == 'hunk' and l[:1] in '-+' and l[1:].strip() and rng.random() < 0.6:      # (an empty raw line has no cell that shows its kind)
            l = bg('minus' if l[0] == '-' else 'plus') + l + '\x1b[m'
        out.append(l)
    return ('\n'.join(out) + '\n').encode()


def expected_fields(order, kind, old, new):
    out = []
    for ph in order:
        if ph == 'nm':
            out.append(old if kind in '- ' else None)
        else:
            out.append(new if kind in '+ ' else None)
    return out


def check_hunk_header(info, s, h, meta, counters):
    """Path and number shown in the hunk header row."""
    cells = info.row.cells
    path = ''.join(c.ch for c in cells if gen.TAG_BY_RGB.get(c.fg) == 'hh_file')
    num = ''.join(c.ch for c in cells if gen.TAG_BY_RGB.get(c.fg) == 'hh_ln')
    hh = meta['hh']
    if 'line-number' in hh:
        counters['hunk_header_numbers'] += 1
        if num.strip() != str(h.new_start):
            return 'hunk-header-number', 'number in the hunk header is not the starting line of the hunk in the new file', h.new_start, num
    if 'file' in hh:
        want = s.old_path if s.kind == 'deleted' else s.new_path
        counters['hunk_header_paths'] += 1
        if path != want and path.replace(' ', '') != (meta.get('hunk_label', '') + want).replace(' ', ''):
            return 'hunk-header-path', 'path in the hunk header is not that of the file the hunk belongs to', want, path
    return None


def check_unified(d, meta, out, counters):
    infos = [i for i in rows.classify_all(out)]
    lo, ro = meta['orders']
    order = lo + ro
    pos = 0
    n = len(infos)
    for si, s in enumerate(d.sections):
        while pos < n and infos[pos].kind != 'file':
            if infos[pos].kind == 'code':
                return 'structure', 'code row before file header', None, repr(infos[pos])
            pos += 1
        pos += 1
        for h in s.hunks:
            while pos < n and infos[pos].kind in ('blank', 'dec'):
                pos += 1
            if meta['hh'] or h.fragment:
                if pos >= n or infos[pos].kind != 'hunk':
                    return 'structure', 'hunk header row expected', h.header(), repr(infos[pos]) if pos < n else 'end'
                bad = check_hunk_header(infos[pos], s, h, meta, counters)
                if bad:
                    return bad
                pos += 1
            while pos < n and infos[pos].kind == 'dec':
                pos += 1
            o, nn = h.old_start, h.new_start
            for k, t in h.lines:
                if k == '\\':
                    pos += 1
                    continue
                if pos >= n or infos[pos].kind != 'code':
                    return 'structure', 'code row expected for a %r line' % k, t, repr(infos[pos]) if pos < n else 'end'
                info = infos[pos]
                fields = sbs.number_fields(info.row.cells)
                got = [sbs.field_number(x) for _, x in fields]
                exp = expected_fields(order, k, o, nn)
                if got != exp:
                    return 'number:unified:%s' % ({'-': 'minus', '+': 'plus', ' ': 'zero'}[k]), \
                        'line numbers shown on a %r line are not its old/new line numbers' % k, exp, got
                counters['numbers_compared'] += sum(1 for e in exp if e is not None)
                counters['blank_fields_checked'] += sum(1 for e in exp if e is None)
                # text sanity: the row shows this line
                if info.code is not None and not info.code.replace(' ', '').startswith(rows.expand_tabs(t, meta['tabs']).replace(' ', '')[:10]) \
                        and not meta['markers']:
                    return 'structure', 'row does not show the expected line', t, info.code
                if k in '- ':
                    o += 1
                if k in '+ ':
                    nn += 1
                pos += 1
    while pos < n:
        if infos[pos].kind == 'code':
            return 'structure:extra-row', 'a row of code (with line numbers) beyond the last line of the last hunk', None, repr(infos[pos])
        pos += 1
    return None


def check_sbs(d, meta, W, out, counters):
    infos = rows.classify_all(out)
    syms = meta['syms']
    # group rows: per hunk
    groups = []
    cur = None
    hdrs = []
    for info in infos:
        if info.kind == 'hunk':
            cur = []
            groups.append(cur)
            hdrs.append(info)
        elif info.kind == 'file':
            cur = None
        elif info.kind == 'code' and cur is not None:
            cur.append(info)
    model = [(s, h) for s in d.sections for h in s.hunks]
    if len(groups) != len(model):
        return 'structure', 'number of hunk header rows differs from number of hunks', len(model), len(groups)
    for (s, h), grp, hdr in zip(model, groups, hdrs):
        bad = check_hunk_header(hdr, s, h, meta, counters)
        if bad:
            return bad
        parsed = []
        for info in grp:
            L, R, ok = sbs.parse_sbs_row(info.row, W, syms)
            if R.kind is None and not R.code_cells and info.row.fills:
                f = rows.family_of(gen.TAG_BY_RGB.get(info.row.fills[-1][2][1]))
                if f is not None:
                    R.kinds = {f}
                    R.kind = f
            parsed.append((L, R, info.row))
        lines = [(k, t) for k, t in h.lines if k != '\\']
        # old / new number of every line of the hunk
        numbered = []
        o_, n_ = h.old_start, h.new_start
        for k, t in lines:
            numbered.append((k, t, o_ if k in '- ' else None, n_ if k in '+ ' else None))
            if k in '- ':
                o_ += 1
            if k in '+ ':
                n_ += 1
        lo_, ro_ = meta['orders']
        for side, kinds, order in ((0, '- ', lo_), (1, '+ ', ro_)):
            stream = c07.side_stream(parsed, side)
            i = 0
            for k, t, onum, nnum in numbered:
                if k not in kinds:
                    continue
                want_first = [onum if ph_ == 'nm' else nnum for ph_ in order]
                if i >= len(stream):
                    return 'structure', 'line missing in panel', t, 'end of rows'
                first = True
                while True:
                    if i >= len(stream):
                        break
                    idx, p = stream[i]
                    got = [sbs.field_number(x) for _, x in p.fields]
                    exp = want_first if first else [None] * len(order)
                    if got != exp:
                        return 'number:sbs:%s:%s' % ('left' if side == 0 else 'right', 'first-row' if first else 'continuation-row'), \
                            'line number shown in the %s panel (%s of a %r line) is wrong' % ('left' if side == 0 else 'right',
                                                                                             'first row' if first else 'continuation row', k), exp, got
                    # the other panel of the same row, when it holds no line of its own: it may show the number(s) of this
                    # line where its format asks for them, on the first row - and nothing on a continuation row
                    other = parsed[idx][1 - side]
                    if other.kind is None and not other.code_cells and k != ' ':
                        oorder = ro_ if side == 0 else lo_
                        ogot = [sbs.field_number(x) for _, x in other.fields]
                        if any(n_ is not None and n_ >= 10 ** 6 for n_ in ogot + [onum, nnum]):
                            # (numbers of ten digits can fill a narrow panel: a panel that shows no text is then not known to be empty)
                            ogot = None
                    if other.kind is None and not other.code_cells and k != ' ' and ogot is not None:
                        oexp = [((onum if ph_ == 'nm' else nnum) if first else None) for ph_ in oorder]
                        if first and len(ogot) == len(oexp) and all(a == b or (a is not None and b is not None and str(b).startswith(str(a)) and b >= 10 ** 6)
                                                                   for a, b in zip(ogot, oexp)):
                            ogot = oexp      # (a number wider than its field is cut by the panel: digits are a prefix)
                        if len(ogot) == len(oexp) and ogot != oexp:
                            return 'number:sbs:%s:empty-panel-beside-%s' % ('right' if side == 0 else 'left', 'first-row' if first else 'continuation-row'), \
                                'the empty %s panel beside the %s of a %r line shows other numbers than that line has' % (
                                    'right' if side == 0 else 'left', 'first row' if first else 'continuation row', k), oexp, ogot
                        counters['empty_panel_fields_checked'] = counters.get('empty_panel_fields_checked', 0) + 1
                    if first:
                        counters['numbers_compared'] += 1
                        # tie the number to the line content
                        exp_t = c07.exp_text(k, t, meta)
                        frag = p.text()
                        if not (exp_t.startswith(frag.rstrip(' ')) or frag.startswith(exp_t)) and not c07.loose_equal(frag, exp_t[:len(frag)]):
                            return 'structure', 'first row of the line does not show the start of the expected line', exp_t, frag
                    else:
                        counters['blank_fields_checked'] += 1
                    i += 1
                    first = False
                    if p.truncated or not p.has_wrap:
                        break
            if i < len(stream):
                return 'structure:extra-row', 'the %s panel shows more rows than the hunk has lines for it' % ('left' if side == 0 else 'right'), None, stream[i][1].text()
    return None


def run_item(item):
    _, seed = item
    d, opts, meta, view, mode, W = make_case(seed)
    res = runner.run_delta(gen.to_args(opts), input_bytes(d, meta, seed), mode=mode)
    c = crash_outcome(res, ID)
    if c is not None:
        return c
    if res.rc != 0:
        return inconclusive('exit %d: %s' % (res.rc, res.err[:120]))
    counters = {'numbers_compared': 0, 'blank_fields_checked': 0, 'hunk_header_numbers': 0, 'hunk_header_paths': 0}
    sets = {'views': [view], 'format_classes': [meta['fmt_class']], 'option_classes': meta['classes'] + (['raw-colored-input'] if meta.get('raw_colored') else []) + (['plain-diff-stripped-empty-context'] if meta.get('plain_stripped') else []),
            'starts': sorted({str(h.new_start) for s in d.sections for h in s.hunks})[:6]}
    if view == 'sbs':
        bad = check_sbs(d, meta, W, res.out, counters)
    else:
        bad = check_unified(d, meta, res.out, counters)
    if bad is not None:
        key, what, exp, obs = bad
        if key == 'structure':
            return inconclusive('oracle could not align rows with the model: %s (%r vs %r)' % (what, exp, obs))
        return violated('c05:' + key, what, exp, obs, run=res, counters=counters, sets=sets)
    shape = tuple(''.join(k for k, _ in h.lines) for s in d.sections for h in s.hunks)
    nontrivial = any('-' in x and '+' in x for x in shape)
    return held(sig=(view, meta['fmt_class'], tuple(sets['starts']), shape), nontrivial=nontrivial, counters=counters, sets=sets,
                sample={'view': view, 'formats': [opts['--line-numbers-left-format'], opts['--line-numbers-right-format']],
                        'hunk_headers': [h.header() for s in d.sections for h in s.hunks][:3], 'numbers_compared': counters['numbers_compared']})


def floors(ctx, agg):
    p = []
    if agg.counters.get('numbers_compared', 0) < 15000:
        p.append('fewer than 15000 numbers compared')
    if len(agg.sets.get('format_classes', ())) < 5:
        p.append('not all format classes exercised')
    return p
