"""C13 - option values resolve by the documented precedence, deterministically."""
import itertools
import os
import re

from .. import engine, gen, runner, term
from ..engine import held, inconclusive, violated
from .. import crash as crashmod

ID = 'C13'
LEVEL = 'exploration'
RULE = ('placements of distinct sentinel values for an option (16 options covering string/style/bool/usize/float/optional types) in '
        'up to 3 simultaneous sources out of {command line, [delta] section, GIT_CONFIG_PARAMETERS (both formats), custom features '
        'f1..f3 enabled via --features / [delta] features / DELTA_FEATURES with and without "+", nested features, built-in '
        'feature default}; the winner predicted by a resolver written from the documentation is compared with `delta '
        '--show-config`; every placement is resolved in several fresh processes which must agree; families are enumerated '
        'exhaustively over the small scope (option x family parameters), then random larger ones; distinct = (family, option, '
        'parameters); non-trivial = at least two sources set the option')
ASSUMPTIONS = ['only relations stated in the property are decisive; the order inside one "+"-prefixed DELTA_FEATURES value and '
               'the relative priority of different built-in flags are exercised for determinism only']
CHUNK = 4

# option -> (type, sentinel generator)
# themes whose name as printed by --show-config is the name given (OneHalfDark, gruvbox-*, ... print their internal names)
THEME_POOL = ['Dracula', 'GitHub', 'Nord', 'zenburn', 'TwoDark', 'Sublime Snazzy', 'Monokai Extended Light', 'Solarized (light)',
              'Solarized (dark)', 'Coldark-Dark', '1337', 'Monokai Extended']


def sentinels(opt, n):
    t = OPTIONS[opt]
    if t == 'string':
        return ['S%d_%s' % (i, opt.replace('-', '')) for i in range(n)]
    if t == 'style':
        return [str(17 + i) for i in range(n)]
    if t == 'style-normal':
        return ['normal %d' % (17 + i) for i in range(n)]
    if t == 'bool':
        if _BOOL_PATTERN[0] is not None:
            k, v = _BOOL_PATTERN[0] % 3, 'true' if _BOOL_PATTERN[0] < 3 else 'false'
            return [v if i == k else ('false' if v == 'true' else 'true') for i in range(n)]
        return ['true', 'false'] * ((n + 1) // 2)
    if t == 'usize':
        return [str(11 + i) for i in range(n)]
    if t == 'float':
        return ['0.%d' % (11 + i) for i in range(n)]
    if t == 'theme':
        return THEME_POOL[:n]
    if t == 'width':
        return [str(101 + i) for i in range(n)]
    raise ValueError(t)


OPTIONS = {
    'file-modified-label': 'string', 'file-added-label': 'string', 'file-renamed-label': 'string', 'right-arrow': 'string',
    'word-diff-regex': 'string',
    'file-style': 'style', 'commit-style': 'style', 'minus-style': 'style', 'zero-style': 'style', 'grep-file-style': 'style',
    'minus-emph-style': 'style-normal', 'plus-emph-style': 'style-normal', 'minus-non-emph-style': 'style-normal', 'plus-style': 'style-normal',
    'hunk-header-style': 'style',
    'keep-plus-minus-markers': 'bool', 'hyperlinks-commit-link-format': None,
    'tabs': 'usize', 'max-line-length': 'usize', 'diff-stat-align-width': 'usize',
    'max-line-distance': 'float',
    'syntax-theme': 'theme', 'width': 'width',
}
OPTIONS = {k: v for k, v in OPTIONS.items() if v}
BOOLS = ['keep-plus-minus-markers']

# built-in features and an option each of them sets (value as shown by --show-config)
BUILTIN_SETS = {
    'navigate': ('file-modified-label', 'Δ'),
    'diff-so-fancy': ('file-style', '11'),
    'raw': ('tabs', '0'),
    'color-only': ('tabs', '0'),
    'diff-highlight': ('minus-style', 'red'),
}


def parse_show_config(out):
    d = {}
    for line in term.strip_escapes(out.decode('utf-8', 'replace')).split('\n'):
        m = re.match(r'^\s+([a-z0-9-]+)\s+= ?(.*)$', line)
        if m:
            v = m.group(2)
            if len(v) >= 2 and v[0] == "'" and v[-1] == "'":
                v = v[1:-1]
            d[m.group(1)] = v
    return d


SYN = {'magenta': 'purple', 'brightmagenta': 'brightpurple'}
COLOR_NUM = {'black': '0', 'red': '1', 'green': '2', 'yellow': '3', 'blue': '4', 'purple': '5', 'cyan': '6', 'white': '7'}
COLOR_NUM.update({'bright' + k: str(int(v) + 8) for k, v in list(COLOR_NUM.items())})


def norm_value(opt, v):
    t = OPTIONS.get(opt)
    if t in ('style', 'style-normal'):
        v = v.strip('"')
        v = ' '.join(SYN.get(w.replace('bright-', 'bright'), w.replace('bright-', 'bright')) for w in v.split())
        v = ' '.join(COLOR_NUM.get(w, w) for w in v.split())
    if t == 'float':
        try:
            return repr(float(v))
        except ValueError:
            return v
    return v


class Placement(object):
    def __init__(self, opt):
        self.opt = opt
        self.cli = {}            # option -> value given on the command line
        self.cli_flags = []      # builtin feature flags on the command line
        self.features_arg = None
        self.main = {}           # [delta] key -> value
        self.sections = {}       # feature -> {key: value}
        self.gcp = {}            # delta.key -> value via GIT_CONFIG_PARAMETERS
        self.gcp_format = 'new'
        self.env_features = None
        self.no_gitconfig = False
        self.cfg_where = '--config'   # or 'home' (~/.gitconfig), 'xdg' ($XDG_CONFIG_HOME/git/config)
        self.expected = None
        self.why = ''
        self.family = ''
        self.nsources = 0

    def gitconfig_text(self):
        if not self.main and not self.sections:
            return None
        t = ''
        if self.main:
            t += '[delta]\n' + ''.join('    %s = %s\n' % (k, quote(v)) for k, v in self.main.items())
        for f, kv in self.sections.items():
            t += '[delta "%s"]\n' % f + ''.join('    %s = %s\n' % (k, quote(v)) for k, v in kv.items())
        return t

    def run_args(self):
        args = []
        cfg = self.gitconfig_text()
        self.home = None
        if cfg is not None and self.cfg_where == '--config':
            path = runner.write_file('c13_%d.gitconfig' % abs(hash(cfg)), cfg)
            args += ['--config', path]
        elif cfg is not None:
            # the places git itself reads: delta finds them through libgit2's default configuration
            self.home = os.path.join(runner.workdir(), 'tmp', 'c13home_%d_%d' % (os.getpid(), abs(hash((cfg, self.cfg_where)))))
            os.makedirs(os.path.join(self.home, '.config', 'git'), exist_ok=True)
            target = os.path.join(self.home, '.gitconfig') if self.cfg_where == 'home' else os.path.join(self.home, '.config', 'git', 'config')
            with open(target, 'w') as f:
                f.write(cfg)
        if self.no_gitconfig:
            args.append('--no-gitconfig')
        if self.features_arg is not None:
            args += ['--features', self.features_arg]
        for f in self.cli_flags:
            args.append('--' + f)
        for k, v in self.cli.items():
            if OPTIONS.get(k) == 'bool':
                if v == 'true':
                    args.append('--' + k)
            else:
                args += ['--' + k, v] if not v.startswith('-') else ['--%s=%s' % (k, v)]
        env = {}
        if self.gcp:
            if self.gcp_format == 'new':
                # (a key given without a value - git -c delta.x - is written 'delta.x'= by git >= 2.31 and 'delta.x' before)
                env['GIT_CONFIG_PARAMETERS'] = ' '.join(("'delta.%s'='%s'" % (k, v)) if v is not None else ("'delta.%s'=" % k) for k, v in self.gcp.items())
            elif any(v is None for v in self.gcp.values()):
                env['GIT_CONFIG_PARAMETERS'] = ' '.join(("'delta.%s=%s'" % (k, v)) if v is not None else ("'delta.%s'" % k) for k, v in self.gcp.items())
            else:
                env['GIT_CONFIG_PARAMETERS'] = ' '.join("'delta.%s=%s'" % (k, v) for k, v in self.gcp.items())
        if self.env_features is not None:
            env['DELTA_FEATURES'] = self.env_features
        return args + ['--show-config'], env

    def describe(self):
        return {'option': self.opt, 'family': self.family, 'cli': self.cli, 'cli_flags': self.cli_flags, 'features_arg': self.features_arg,
                'gitconfig': self.gitconfig_text(), 'GIT_CONFIG_PARAMETERS': self.gcp, 'DELTA_FEATURES': self.env_features,
                'no_gitconfig': self.no_gitconfig, 'expected': self.expected, 'why': self.why}


def quote(v):
    if v == '' or v != v.strip() or any(c in v for c in '#;"\\'):
        return '"%s"' % v.replace('\\', '\\\\').replace('"', '\\"')
    return v


def enable_list(p, feats, how):
    """Enable the top-level feature list by one of the mechanisms."""
    s = ' '.join(feats)
    if how == 'arg':
        p.features_arg = s
    elif how == 'main':
        p.main['features'] = s
    elif how == 'env':
        p.env_features = s
    elif how == 'env+arg':      # one feature through "+", the rest through --features
        p.env_features = '+' + feats[0]
        p.features_arg = ' '.join(feats[1:]) if len(feats) > 1 else None
    elif how == 'env+main':
        p.env_features = '+' + feats[0]
        if len(feats) > 1:
            p.main['features'] = ' '.join(feats[1:])
    else:
        raise ValueError(how)


def _families():
    """Deterministic small-scope enumeration: yields (family, params)."""
    opts = sorted(OPTIONS)
    for o in opts:
        # F1: command line beats each other source and combinations of two
        others = ['main', 'gcp-new', 'gcp-old', 'feature-arg', 'feature-main', 'feature-env']
        for k in (1, 2):
            for combo in itertools.combinations(others, k):
                yield ('cli-wins', (o, combo))
        # F1b: command line beats whatever a built-in feature (enabled by any means) would set or adjust
        for b in ('side-by-side', 'line-numbers', 'navigate', 'diff-so-fancy', 'diff-highlight', 'hyperlinks', 'raw'):
            if o == 'max-line-length' and b == 'side-by-side':
                continue      # (side-by-side raises the effective limit to what the wrapped rows can hold: documented, derived value)
            for where in ('cli-flag', 'main-flag', 'feature-list-arg', 'feature-list-main', 'feature-list-env'):
                yield ('cli-wins-under-builtin', (o, b, where))
        # F1c: an unrelated flag on the command line (a colour mode, a paging mode, ...) does not change which source wins
        for src in ('main', 'gcp-new', 'feature-arg', 'feature-main', 'feature-env'):
            for flag in ('light', 'dark', 'paging=never', 'true-color=always', 'no-gitconfig-absent'):
                yield ('source-beside-unrelated-flag', (o, src, flag))
        # F2: main section / GIT_CONFIG_PARAMETERS beat features
        for main_src in (('main',), ('gcp-new',), ('gcp-old',), ('main', 'gcp-new')):
            for how in ('arg', 'main', 'env'):
                yield ('main-wins', (o, main_src, how))
        # F3: last-listed feature wins
        for n in (2, 3):
            for how in ('arg', 'main', 'env'):
                for perm in itertools.permutations(['f1', 'f2', 'f3'][:n]):
                    yield ('last-listed', (o, perm, how))
        # F4: a feature named more than once in a list (its last mention counts)
        for lst in (('f1', 'f2', 'f1'), ('f2', 'f1', 'f2'), ('f1', 'f2', 'f3', 'f1'), ('f1', 'f1', 'f2'), ('f3', 'f1', 'f3', 'f2', 'f3')):
            for how in ('arg', 'main', 'env'):
                yield ('repeated', (o, lst, how))
        # F5: nested features
        for depth in (2, 3):
            for how in ('arg', 'main', 'env', 'env+arg', 'env+main'):
                yield ('nested', (o, depth, how))
        # F7: --no-gitconfig
        for srcs in (('main',), ('feature-main',), ('main', 'feature-main'), ('gcp-new',), ('main', 'gcp-old'), ('feature-env',),
                     ('main', 'feature-env', 'gcp-new')):
            for with_cli in (False, True):
                for where in ('--config', 'home', 'xdg'):
                    yield ('no-gitconfig', (o, srcs, with_cli, where))
        # F8: the configuration found where git keeps it (~/.gitconfig, $XDG_CONFIG_HOME/git/config) ranks like --config
        for where in ('home', 'xdg'):
            for how in ('arg', 'main', 'env'):
                yield ('config-location', (o, where, how))
        # default only
        yield ('default', (o,))
    for b, (o, _v) in sorted(BUILTIN_SETS.items()):
        for where in ('cli-flag', 'main-flag', 'feature-list-arg', 'feature-list-main', 'feature-flag'):
            for custom in (False, True):
                yield ('custom-before-builtin', (b, where, custom))
        for how in ('arg', 'env', 'main'):
            for flag_where in ('cli-flag', 'main-flag'):
                yield ('named-before-flags', (b, how, flag_where))
        # a boolean override given with git -c in any of git's spellings
        for spelling in ('yes', 'on', '1', 'True', 'no', 'off', '0', 'FALSE'):
            for fmt_ in ('new', 'old'):
                yield ('gcp-bool-spelling', (b, spelling, fmt_))
        # a gitconfig section named like a built-in feature is a feature like any other: the features it names (and the
        # built-in flags it sets) are enabled with it when it is named in a list
        for how in ('arg', 'env', 'main', 'env+'):
            for nested in ('features', 'flag'):
                yield ('builtin-named-section', (b, how, nested))
        # a feature flag keeps enabling its built-in feature when a feature list (that does not set the option) is named too
        for how in ('arg', 'env', 'main'):
            for flag_where in ('cli-flag', 'main-flag', 'gcp-flag'):
                for lst in ('unrelated', 'empty'):
                    yield ('flag-beside-list', (b, how, flag_where, lst))
    # DELTA_FEATURES without a leading '+' is the whole list of features - also when it is empty or blank
    # ("use DELTA_FEATURES=+ to go back to just the features from git config")
    for where in ('main', 'arg', 'both'):
        for blank in ('', ' '):
            yield ('empty-env-feature-list', (where, blank))
    # zero is a value like any other (no truncation, no tab expansion ...): a source that says 0 has set the option
    for o in ('max-line-length', 'tabs', 'diff-stat-align-width'):
        for where in ('main', 'gcp-new', 'gcp-old', 'feature-main', 'last-feature'):
            yield ('zero-is-a-value', (o, where))
    # the deprecated spelling of --true-color is a command-line option like any other
    for where in ('main', 'gcp-new', 'feature-main'):
        for val in ('never', 'always'):
            yield ('alias-24-bit-color', (where, val))
    # values that git -c accepts like a config file does: a key without a value (true), an empty value, a number with a suffix
    for shape in ('bare', 'empty', 'suffix'):
        for fmt_ in ('new', 'old'):
            for other in (False, True):
                yield ('gcp-value-shape', (shape, fmt_, other))
    for feats in ('side-by-side', 'diff-so-fancy', 'navigate', 'line-numbers', 'hyperlinks', 'diff-highlight', 'raw', 'side-by-side navigate',
                  'diff-so-fancy line-numbers', 'nonexistent side-by-side'):
        for how in ('arg', 'env', 'env+'):
            for flag in (None, 'navigate', 'side-by-side'):
                yield ('no-gitconfig-equals-empty', (feats, how, flag))
    # ... also when a configuration file is named beside --no-gitconfig and that file switches built-in features on (by a flag
    # in [delta], in a features list, in a custom section that is reachable): none of it may show
    for b in ('line-numbers', 'side-by-side', 'navigate', 'diff-so-fancy', 'hyperlinks', 'raw', 'color-only', 'diff-highlight'):
        for shape in ('main-flag', 'main-features', 'section-flag', 'section-features'):
            for where in ('--config', 'home'):
                yield ('no-gitconfig-equals-empty', (None, 'cfg', (b, shape, where)))
    for combo in itertools.combinations(sorted(BUILTIN_SETS) + ['line-numbers', 'side-by-side', 'hyperlinks'], 2):
        yield ('determinism-flags', (combo, 'main'))
    for combo in itertools.combinations(sorted(BUILTIN_SETS) + ['line-numbers', 'side-by-side'], 3):
        yield ('determinism-flags', (combo, 'main'))
    for combo in itertools.combinations(sorted(BUILTIN_SETS), 2):
        yield ('determinism-flags', (combo, 'feature'))


def families():
    """_families(), plus for boolean options every placement once more per polarity pattern: exactly one source holds the
    value v, all the others hold not-v (with alternating values a swap of two sources can stay invisible)."""
    for fam, params in _families():
        yield (fam, params)
        o = params[0] if params and isinstance(params[0], str) else None
        if o in OPTIONS and OPTIONS[o] == 'bool' and fam in ('cli-wins', 'main-wins', 'last-listed', 'repeated', 'no-gitconfig', 'config-location'):
            for variant in range(6):
                yield ('bool-pattern', (fam, params, variant))


_BOOL_PATTERN = [None]


def build(family, params, defaults):
    if family == 'bool-pattern':
        fam, inner, variant = params
        _BOOL_PATTERN[0] = variant
        try:
            p = build(fam, inner, defaults)
        finally:
            _BOOL_PATTERN[0] = None
        if p is not None:
            p.family = 'bool-pattern:' + fam
        return p
    if family == 'cli-wins':
        o, combo = params
        S = sentinels(o, 6)
        p = Placement(o)
        p.cli[o] = S[0]
        i = 1
        for src in combo:
            put_source(p, o, src, S[i])
            i += 1
        p.expected = S[0]
        if OPTIONS[o] == 'bool' and S[0] == 'false':
            return None
        p.why = 'a value given on the command line is never overridden'
        p.nsources = 1 + len(combo)
    elif family == 'cli-wins-under-builtin':
        o, b, where = params
        S = sentinels(o, 6)
        p = Placement(o)
        p.cli[o] = S[0]
        if where == 'cli-flag':
            p.cli_flags.append(b)
        elif where == 'main-flag':
            p.main[b] = 'true'
        elif where == 'feature-list-arg':
            p.features_arg = b
        elif where == 'feature-list-main':
            p.main['features'] = b
        else:
            p.env_features = b
        p.expected = S[0]
        if OPTIONS[o] == 'bool' and S[0] == 'false':
            return None
        p.why = 'a value given on the command line is never overridden (here: by what the built-in feature %s sets or adjusts)' % b
        p.nsources = 2
    elif family == 'source-beside-unrelated-flag':
        o, src, flag = params
        S = sentinels(o, 6)
        p = Placement(o)
        put_source(p, o, src, S[0])
        if flag == 'no-gitconfig-absent':
            pass
        elif '=' in flag:
            k_, v_ = flag.split('=')
            p.cli[k_] = v_
        else:
            p.cli_flags.append(flag)
        p.expected = S[0]
        p.why = 'the only source that sets the option is %s; the command line only holds --%s, which does not set it' % (src, flag)
        p.nsources = 2
    elif family == 'main-wins':
        o, main_src, how = params
        S = sentinels(o, 6)
        p = Placement(o)
        i = 0
        exp = None
        for src in main_src:
            put_source(p, o, src, S[i])
            if src.startswith('gcp') or exp is None:
                exp = S[i]
            i += 1
        p.sections['f1'] = {o: S[i]}
        p.sections['f2'] = {o: S[i + 1]}
        enable_list(p, ['f1', 'f2'], how)
        p.expected = exp
        p.why = 'the main [delta] section (with GIT_CONFIG_PARAMETERS overrides) beats every feature'
        p.nsources = len(main_src) + 2
    elif family == 'last-listed':
        o, perm, how = params
        S = sentinels(o, 6)
        p = Placement(o)
        for i, f in enumerate(['f1', 'f2', 'f3'][:len(perm)]):
            p.sections[f] = {o: S[i]}
        enable_list(p, list(perm), how)
        last = perm[-1]
        p.expected = p.sections[last][o]
        p.why = 'among enabled features the last-listed one wins'
        p.nsources = len(perm)
    elif family == 'repeated':
        o, lst, how = params
        S = sentinels(o, 6)
        p = Placement(o)
        for i, f in enumerate(sorted(set(lst))):
            p.sections[f] = {o: S[i]}
        enable_list(p, list(lst), how)
        p.expected = p.sections[lst[-1]][o]
        p.why = 'among enabled features the last-listed one wins (a feature named twice counts where it is named last)'
        p.nsources = len(set(lst))
    elif family == 'nested':
        o, depth, how = params
        S = sentinels(o, 6)
        p = Placement(o)
        if depth == 2:
            p.sections['f1'] = {'features': 'f2'}
            p.sections['f2'] = {o: S[0]}
        else:
            p.sections['f1'] = {'features': 'f2'}
            p.sections['f2'] = {'features': 'f3'}
            p.sections['f3'] = {o: S[0]}
        if how in ('env+arg', 'env+main'):
            # the "+" feature is f1 (the parent); another harmless feature comes through the other mechanism
            p.sections['g'] = {'hunk-label': 'G'}
            enable_list(p, ['f1', 'g'], how)
        else:
            enable_list(p, ['f1'], how)
        p.expected = S[0]
        p.why = 'features enabled by an enabled feature are enabled'
        p.nsources = 1
    elif family == 'config-location':
        o, where, how = params
        S = sentinels(o, 6)
        p = Placement(o)
        p.cfg_where = where
        p.main[o] = S[0]
        p.sections['f1'] = {o: S[1]}
        p.sections['f2'] = {o: S[2]}
        enable_list(p, ['f1', 'f2'], how)
        p.expected = S[0]
        p.why = 'the main [delta] section of %s beats every feature' % ('~/.gitconfig' if where == 'home' else '$XDG_CONFIG_HOME/git/config')
        p.nsources = 3
    elif family == 'no-gitconfig':
        o, srcs, with_cli, where = params
        S = sentinels(o, 6)
        p = Placement(o)
        p.no_gitconfig = True
        p.cfg_where = where
        i = 0
        for src in srcs:
            put_source(p, o, src, S[i])
            i += 1
        if with_cli:
            if OPTIONS[o] == 'bool':
                p.cli[o] = 'true'
                p.expected = 'true'
            else:
                p.cli[o] = S[i]
                p.expected = S[i]
        else:
            p.expected = defaults.get(o)
        p.why = '--no-gitconfig ignores every gitconfig source'
        p.nsources = len(srcs) + int(with_cli)
    elif family == 'default':
        (o,) = params
        p = Placement(o)
        p.expected = defaults.get(o)
        p.why = 'built-in default'
        p.nsources = 0
    elif family == 'custom-before-builtin':
        b, where, custom = params
        o, bval = BUILTIN_SETS[b]
        S = sentinels(o, 6)
        p = Placement(o)
        if where == 'cli-flag':
            p.cli_flags.append(b)
        elif where == 'main-flag':
            p.main[b] = 'true'
        elif where == 'feature-list-arg':
            p.features_arg = b
        elif where == 'feature-list-main':
            p.main['features'] = b
        else:
            p.sections['f1'] = {b: 'true'}
            p.features_arg = 'f1'
        if custom:
            p.sections.setdefault(b, {})[o] = S[0]
            p.expected = S[0]
            p.why = 'a custom [delta "%s"] section comes before the built-in feature\'s own value' % b
            p.nsources = 2
        else:
            p.expected = bval
            p.why = 'an enabled built-in feature\'s value beats the option default'
            p.nsources = 1
    elif family == 'named-before-flags':
        b, how, flag_where = params
        o, bval = BUILTIN_SETS[b]
        S = sentinels(o, 6)
        p = Placement(o)
        p.sections['f1'] = {o: S[0]}
        enable_list(p, ['f1'], how)
        if flag_where == 'cli-flag':
            p.cli_flags.append(b)
        else:
            p.main[b] = 'true'
        if how == 'main' and flag_where == 'cli-flag':
            return None   # [delta] features vs command-line flags: not a stated relation
        p.expected = S[0]
        p.why = 'features named by --features / DELTA_FEATURES come before feature flags'
        p.nsources = 2
    elif family == 'gcp-bool-spelling':
        b, spelling, fmt_ = params
        truth = spelling.lower() in ('yes', 'on', '1', 'true')
        o = 'keep-plus-minus-markers'
        p = Placement(o)
        p.main[o] = 'false' if truth else 'true'
        p.gcp[o] = spelling
        p.gcp_format = fmt_
        p.expected = 'true' if truth else 'false'
        p.why = 'GIT_CONFIG_PARAMETERS (git -c delta.%s=%s) overrides the [delta] section; %r is one of git\'s spellings of %s' % (o, spelling, spelling, truth)
        p.nsources = 2
    elif family == 'empty-env-feature-list':
        where, blank = params
        o = 'file-modified-label'
        S = sentinels(o, 6)
        p = Placement(o)
        p.sections['f1'] = {o: S[0]}
        p.sections['f2'] = {o: S[1]}
        if where in ('main', 'both'):
            p.main['features'] = 'f1'
        if where in ('arg', 'both'):
            p.features_arg = 'f2'
        p.env_features = blank
        p.expected = defaults.get(o, '')
        p.why = 'DELTA_FEATURES=%r (no leading +) is the list of enabled features: none; the features named in %s are not enabled' % (blank, where)
        p.nsources = 2
    elif family == 'zero-is-a-value':
        o, where = params
        p = Placement(o)
        if where == 'feature-main':
            p.main['features'] = 'f1'
            p.sections['f1'] = {o: '0'}
            p.why = 'the enabled feature f1 sets %s = 0; the built-in default is another number' % o
        elif where == 'last-feature':
            p.main['features'] = 'f1 f2'
            p.sections['f1'] = {o: '7'}
            p.sections['f2'] = {o: '0'}
            p.why = 'features "f1 f2": the last-listed f2 sets %s = 0, f1 says 7' % o
        else:
            put_source(p, o, where, '0')
            p.main['features'] = 'f1'
            p.sections['f1'] = {o: '9'}
            if where != 'main':
                p.main[o] = '5'
            p.why = '%s says %s = 0, lower-priority sources say other numbers' % (where, o)
        p.expected = '0'
        p.nsources = 2
    elif family == 'alias-24-bit-color':
        where, val = params
        p = Placement('true-color')
        other = 'always' if val == 'never' else 'never'
        if where == 'feature-main':
            p.main['features'] = 'f1'
            p.sections['f1'] = {'true-color': other}
        else:
            put_source(p, 'true-color', where, other)
        p.cli['24-bit-color'] = val
        p.expected = 'true' if val == 'always' else 'false'
        p.why = '--24-bit-color %s on the command line (the deprecated spelling of --true-color) comes before true-color = %s from %s' % (val, other, where)
        p.nsources = 2
    elif family == 'gcp-value-shape':
        shape, fmt_, other = params
        o, inmain, val, exp = {'bare': ('keep-plus-minus-markers', 'false', None, 'true'),
                               'empty': ('file-modified-label', 'FROMFILE', '', ''),
                               'suffix': ('max-line-length', '77', '1k', '1024')}[shape]
        p = Placement(o)
        p.main[o] = inmain
        p.gcp[o] = val
        if other:
            p.gcp['file-added-label'] = 'other override'      # (a second override in the same variable)
        p.gcp_format = fmt_
        p.expected = exp
        p.why = 'GIT_CONFIG_PARAMETERS (git -c delta.%s%s) overrides the [delta] section; a config file accepts the same spelling' % (o, '' if val is None else '=' + val)
        p.nsources = 2
    elif family == 'builtin-named-section':
        b, how, nested = params
        if nested == 'features':
            o = 'file-renamed-label'
            S = sentinels(o, 6)
            p = Placement(o)
            p.sections[b] = {'features': 'f1'}
            p.sections['f1'] = {o: S[0]}
            p.expected = S[0]
        else:
            other = 'navigate' if b != 'navigate' else 'diff-so-fancy'
            o, bval = BUILTIN_SETS[other]
            p = Placement(o)
            p.sections[b] = {other: 'true'}
            p.expected = bval
        if how == 'env+':
            p.env_features = '+' + b
        else:
            enable_list(p, [b], how)
        p.why = 'the section [delta "%s"] is enabled by name (%s) and enables %s' % (b, how, 'the feature f1' if nested == 'features' else 'a built-in feature by its flag')
        p.nsources = 2
    elif family == 'flag-beside-list':
        b, how, flag_where, lst = params
        o, bval = BUILTIN_SETS[b]
        p = Placement(o)
        other = 'hunk-label' if o != 'hunk-label' else 'right-arrow'
        if lst == 'unrelated':
            p.sections['f1'] = {other: 'zz'}
            enable_list(p, ['f1'], how)
        else:
            if how == 'arg':
                p.features_arg = ''
            elif how == 'env':
                p.env_features = ''
            else:
                p.main['features'] = ''
        if flag_where == 'cli-flag':
            p.cli_flags.append(b)
        elif flag_where == 'main-flag':
            p.main[b] = 'true'
        else:
            p.gcp[b] = 'true'
        p.expected = bval
        p.why = 'the built-in feature %s is enabled by its flag (%s); the feature list named by %s does not set the option' % (b, flag_where, how)
        p.nsources = 2
    elif family == 'no-gitconfig-equals-empty':
        feats, how, flag = params
        p = Placement('line-numbers')
        p.no_gitconfig = True
        p.compare_with_empty = True
        if how == 'cfg':
            b, shape, where = flag
            flag = None
            p.cfg_where = where
            if shape == 'main-flag':
                p.main[b] = 'true'
            elif shape == 'main-features':
                p.main['features'] = b
            elif shape == 'section-flag':
                p.main['features'] = 'f1'
                p.sections['f1'] = {b: 'true'}
            else:
                p.main['features'] = 'f1'
                p.sections['f1'] = {'features': b}
        elif how == 'arg':
            p.features_arg = feats
        elif how == 'env':
            p.env_features = feats
        else:
            p.env_features = '+' + feats
        if flag:
            p.cli_flags.append(flag)
        p.expected = None
        p.why = '--no-gitconfig ignores every gitconfig source: the result is that of an empty configuration'
        p.nsources = 2
    elif family == 'determinism-flags':
        combo, where = params
        p = Placement('file-style')
        if where == 'main':
            for b in combo:
                p.main[b] = 'true'
        else:
            p.sections['f1'] = {b: 'true' for b in combo}
            p.features_arg = 'f1'
        p.expected = None
        p.why = 'same sources, same result'
        p.nsources = len(combo)
    else:
        raise ValueError(family)
    p.family = family
    return p


def put_source(p, o, src, val):
    if src == 'main':
        p.main[o] = val
    elif src == 'gcp-new':
        p.gcp[o] = val
        p.gcp_format = 'new'
    elif src == 'gcp-old':
        p.gcp[o] = val
        p.gcp_format = 'old'
    elif src == 'feature-arg':
        p.sections.setdefault('fa', {})[o] = val
        p.features_arg = ((p.features_arg + ' ') if p.features_arg else '') + 'fa'
    elif src == 'feature-main':
        p.sections.setdefault('fm', {})[o] = val
        p.main['features'] = ((p.main.get('features', '') + ' ').lstrip()) + 'fm'
    elif src == 'feature-env':
        p.sections.setdefault('fe', {})[o] = val
        p.env_features = '+fe'
    else:
        raise ValueError(src)


_DEFAULTS = None


def get_defaults():
    global _DEFAULTS
    if _DEFAULTS is None:
        r = runner.run_delta(['--no-gitconfig', '--show-config'], b'', stdin_is_none=True)
        _DEFAULTS = parse_show_config(r.out)
    return _DEFAULTS


def plan(ctx):
    fam = list(families())
    items = [('enum', i) for i in range(len(fam))]
    if ctx.tier == 'quick':
        rng = ctx.rng('c13')
        # the small families about interactions between sources (added after seeded changes slipped through a uniform
        # sample) run completely every time; the big product families are sampled
        small = {'flag-beside-list', 'gcp-bool-spelling', 'gcp-value-shape', 'alias-24-bit-color', 'zero-is-a-value', 'empty-env-feature-list', 'builtin-named-section', 'no-gitconfig-equals-empty', 'source-beside-unrelated-flag', 'custom-before-builtin', 'named-before-flags'}
        pinned = [it for it in items if fam[it[1]][0] in small]
        rest = [it for it in items if fam[it[1]][0] not in small]
        rng.shuffle(rest)
        items = pinned + rest[:ctx.n(800, 0)]
    for i in range(ctx.n(300, 8000)):
        items.append(('random', engine.stable_hash((ctx.seed, 'c13r', i))))
    return items


def EXHAUSTIVE(ctx):
    return ctx.tier == 'thorough'


EXHAUSTIVE_SCOPE = 'all family x parameter combinations of families() (%d placements); the quick tier samples them' % len(list(families()))

_FAM = None


def run_placement(p, reps, label):
    args, env = p.run_args()
    outs = []
    first = None
    first_full = None
    sets = {'families': [p.family], 'options': [p.opt]}
    counters = {'show_config_runs': 0, 'placements': 1}
    for k in range(reps):
        e = dict(env)
        e['ZZ_%d' % k] = '1'     # perturb the environment block
        r = runner.run_delta(args, b'', env=e, stdin_is_none=True, home=getattr(p, 'home', None))
        counters['show_config_runs'] += 1
        c = crashmod.classify(r)
        if c is not None:
            return [violated('c13:crash:' + c['signature'], c['detail'], run=r, sets=sets, extra=p.describe())]
        if r.rc != 0:
            return [inconclusive('placement rejected: %s' % r.err[:200].decode('utf-8', 'replace'), sets=sets)]
        cfgd = parse_show_config(r.out)
        full = {k2: norm_value(k2, v) for k2, v in cfgd.items()}
        val = full.get(p.opt)
        if first_full is None:
            first_full = full
            first = val
            first_raw = r.out
        elif r.out != first_raw and full == first_full:
            return [violated('c13:nondeterministic-text:' + p.family, 'two runs with identical sources printed different --show-config text (the same values spelt differently)',
                             first_raw.decode('utf-8', 'replace')[:400], r.out.decode('utf-8', 'replace')[:400], run=r, sets=sets, counters=counters, extra=p.describe())]
        elif full != first_full:
            diff = sorted(k2 for k2 in set(full) | set(first_full) if full.get(k2) != first_full.get(k2))
            return [violated('c13:nondeterministic:' + p.family, 'two runs with identical sources resolved differently (options %s)' % diff[:6],
                             {k2: first_full.get(k2) for k2 in diff[:6]}, {k2: full.get(k2) for k2 in diff[:6]}, run=r, sets=sets,
                             counters=counters, extra=p.describe())]
    if getattr(p, 'compare_with_empty', False):
        # --no-gitconfig must give what an empty configuration gives
        empty = runner.write_file('c13_empty.gitconfig', '')
        args2 = []
        skip = False
        for a in args:
            if skip:
                skip = False
            elif a == '--config':
                skip = True      # (the file named beside --no-gitconfig: replaced by the empty one)
            elif a == '--no-gitconfig':
                args2 += ['--config', empty]
            else:
                args2.append(a)
        r2 = runner.run_delta(args2, b'', env=env, stdin_is_none=True, home=getattr(p, 'home', None))
        counters['show_config_runs'] += 1
        if crashmod.classify(r2) is None and r2.rc == 0:
            full2 = {k2: norm_value(k2, v) for k2, v in parse_show_config(r2.out).items()}
            if full2 != first_full:
                diff = sorted(k2 for k2 in set(full2) | set(first_full) if full2.get(k2) != first_full.get(k2))
                return [violated('c13:no-gitconfig-differs-from-empty-config', 'with --no-gitconfig the options %s resolve differently than with an empty configuration file '
                                 '(same command line, same environment)' % diff[:6], {k2: full2.get(k2) for k2 in diff[:6]}, {k2: first_full.get(k2) for k2 in diff[:6]},
                                 run=r, sets=sets, counters=counters, extra=p.describe())]
    if p.expected is not None:
        exp = norm_value(p.opt, p.expected)
        if first != exp:
            return [violated('c13:precedence:%s' % p.family, 'option %s resolved to %r; expected %r because %s' % (p.opt, first, exp, p.why),
                             exp, first, run=r, sets=sets, counters=counters, extra=p.describe())]
    o = held(sig=(p.family, label), nontrivial=p.nsources >= 2 or p.family in ('nested', 'determinism-flags'), counters=counters, sets=sets,
             sample=p.describe())
    o['executions'] = reps
    return [o]


def run_item(item):
    global _FAM
    defaults = get_defaults()
    reps = 4
    if item[0] == 'enum':
        if _FAM is None:
            _FAM = list(families())
        family, params = _FAM[item[1]]
        p = build(family, params, defaults)
        if p is None:
            return []
        if family == 'determinism-flags':
            reps = 8
        return run_placement(p, reps, repr(params))
    # random larger placements: many sources at once, resolver predicts by the stated relations
    rng = engine.item_rng(item[1])
    o = rng.choice(sorted(OPTIONS))
    S = sentinels(o, 8)
    p = Placement(o)
    p.family = 'random'
    srcs = rng.sample(['cli', 'main', 'gcp', 'feats'], rng.randint(2, 4))
    i = 0
    exp = None
    feats = []
    if 'feats' in srcs:
        n = rng.randint(1, 3)
        feats = ['f1', 'f2', 'f3'][:n]
        rng.shuffle(feats)
        for f in feats:
            p.sections[f] = {o: S[i]}
            i += 1
        enable_list(p, feats, rng.choice(['arg', 'main', 'env']))
        exp = p.sections[feats[-1]][o]
        p.why = 'last-listed feature'
    if 'main' in srcs:
        p.main[o] = S[i]
        exp = S[i]
        i += 1
        p.why = 'main section beats features'
    if 'gcp' in srcs:
        p.gcp[o] = S[i]
        p.gcp_format = rng.choice(['new', 'old'])
        exp = S[i]
        i += 1
        p.why = 'GIT_CONFIG_PARAMETERS overrides the main section'
    if 'cli' in srcs:
        v = S[i]
        if OPTIONS[o] == 'bool':
            v = 'true'
        p.cli[o] = v
        exp = v
        p.why = 'command line wins'
    # unrelated noise
    if rng.random() < 0.5:
        p.cli_flags.append(rng.choice(['line-numbers', 'hyperlinks']))
    if rng.random() < 0.3:
        p.main['line-numbers'] = 'true'
    p.expected = exp
    p.nsources = len(srcs) + max(0, len(feats) - 1)
    return run_placement(p, reps, repr((o, tuple(srcs), tuple(feats))))


def floors(ctx, agg):
    p = []
    if len(agg.sets.get('families', ())) < 9:
        p.append('not all placement families exercised')
    if len(agg.sets.get('options', ())) < 12:
        p.append('fewer than 12 options exercised')
    return p
