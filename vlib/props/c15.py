"""C15 - syntax highlighting only recolours foregrounds, by the file's language."""
import os

from .. import engine, gen, rows, runner, snippets, term
from ..engine import held, inconclusive, violated, crash_outcome

ID = 'C15'
LEVEL = 'exploration'
RULE = ('diffs of code snippets in 18 languages x pairs of syntax themes of the same light/dark class (and "none") x hunk style '
        'slots randomly with/without the "syntax" foreground x unified/side-by-side; cell-by-cell comparison of the two runs; '
        'plus the same diff under two file names of the same kind; plus the same section (git or plain "diff -u" form, 0..3 context lines) '
        'between two different pairs of neighbouring sections in other languages, whose rows must not change; plus the same code as '
        'rg --json / git grep hits and as blame lines under two file names of the same kind with different directories; plus a file '
        'with an unrecognised name under --default-language X against the same diff of a file named *.X; distinct = (language, theme pair, which slots are syntax, '
        'view, sub-check); non-trivial = at least one cell differs in foreground between the two themes (theme check) / '
        'diff has highlighted cells (rename check)')
ASSUMPTIONS = ['style slots are recognised by reserved background colours']
CHUNK = 4

SLOTS = ['minus', 'plus', 'zero', 'minus_emph', 'plus_emph', 'minus_nonemph', 'plus_nonemph']
SLOT_OPT = {'minus': '--minus-style', 'plus': '--plus-style', 'zero': '--zero-style', 'minus_emph': '--minus-emph-style',
            'plus_emph': '--plus-emph-style', 'minus_nonemph': '--minus-non-emph-style', 'plus_nonemph': '--plus-non-emph-style'}
FIXED_FG = ['#0a0b0c', '#f1f2f3', '#777777']


def plan(ctx):
    items = []
    for i in range(ctx.n(2500, 40000)):
        items.append(('theme', engine.stable_hash((ctx.seed, 'c15t', i))))
    for i in range(ctx.n(1200, 20000)):
        items.append(('rename', engine.stable_hash((ctx.seed, 'c15r', i))))
    for i in range(ctx.n(1200, 20000)):
        items.append(('neighbour', engine.stable_hash((ctx.seed, 'c15n', i))))
    for i in range(ctx.n(800, 12000)):
        items.append(('grep-blame-name', engine.stable_hash((ctx.seed, 'c15g', i))))
    for i in range(ctx.n(600, 9000)):
        items.append(('default-language', engine.stable_hash((ctx.seed, 'c15d', i))))
    for i in range(ctx.n(500, 8000)):
        items.append(('syntax-word-only', engine.stable_hash((ctx.seed, 'c15w', i))))
    for i in range(ctx.n(300, 5000)):
        items.append(('fixed-fg-grep-blame', engine.stable_hash((ctx.seed, 'c15f', i))))
    return items


def run_fixed_fg_grep_blame(rng):
    """grep hits and blame code with a style that does not say 'syntax': the configured foreground, whatever the theme."""
    from .. import corpus
    lang = rng.choice(sorted(snippets.SNIPPETS))
    name = rng.choice(snippets.NAMES[lang])
    code = [l for l in snippets.SNIPPETS[lang] if l.strip()][:rng.randint(2, 6)]
    how = rng.choice(['rg-json', 'git-grep', 'blame', 'blame'])
    fgname = rng.choice(FIXED_FG)
    fg = term.color_of(fgname)
    attr = rng.choice(['', ' bold', ' italic'])
    bgname = rng.choice(['#203040', '#402030'])
    T = gen.TAGS
    base = {'--paging': 'never', '--true-color': 'always', '--dark': True, '--grep-file-style': T['grep_file'], '--grep-line-number-style': T['grep_ln']}
    if how == 'blame':
        base['--blame-code-style'] = '%s %s%s' % (fgname, bgname, attr)
        if rng.random() < 0.5:
            base['--default-language'] = snippets.NAMES[lang][0].rsplit('.', 1)[-1]
    else:
        base['--grep-match-line-style'] = '%s %s%s' % (fgname, bgname, attr)
        base['--grep-context-line-style'] = '%s %s%s' % (fgname, bgname, attr)
        base['--grep-match-word-style'] = '%s %s%s' % (fgname, bgname, attr)
    sets = {'languages': [lang], 'views': [how], 'sub': ['fixed-fg-grep-blame']}
    counters = {'cells_compared': 0, 'fixed_fg_cells': 0, 'pairs': 1}
    for theme in ('none', rng.choice(gen.THEMES_DARK)):
        opts = dict(base)
        opts['--syntax-theme'] = theme
        if how == 'rg-json':
            text = corpus.rg_json_text([(name, [(10 + i, 'match' if i % 2 == 0 else 'context', c, []) for i, c in enumerate(code)])])
            r = runner.run_delta(gen.to_args(opts), text.encode())
        elif how == 'git-grep':
            text = ''.join('%s:%d:%s\n' % (name, 10 + i, c) for i, c in enumerate(code))
            r = runner.run_delta(gen.to_args(opts), text.encode(), parent_argv=['git', 'grep', '-n', 'x'])
        else:
            text = ''.join('abcd%04d (Ann 2020-01-01 00:00:00 +0000 %d) %s\n' % (i // 2, i + 1, c) for i, c in enumerate(code))
            r = runner.run_delta(gen.to_args(opts), text.encode(), parent_argv=['git', 'blame', name])
        c = crash_outcome(r, ID)
        if c is not None:
            return c
        if r.rc != 0:
            return inconclusive('exit %d: %s' % (r.rc, r.err[:100]), sets=sets)
        want_bg = term.color_of(bgname)
        for rw in term.decode(r.out):
            for c_ in rw.cells:
                if c_.bg == want_bg and c_.ch.strip():
                    counters['cells_compared'] += 1
                    counters['fixed_fg_cells'] += 1
                    if c_.fg != fg:
                        o = violated('c15:fixed-fg:%s' % ('blame' if how == 'blame' else 'grep'), 'code painted with a style that does not ask for "syntax" (%s %s%s, theme %s) '
                                     'does not carry its configured foreground' % (fgname, bgname, attr, theme), repr(fg), repr(c_.fg), run=r, counters=counters, sets=sets)
                        o['executions'] = 2
                        return o
    o = held(sig=('fixed-fg', how, lang, fgname, attr), nontrivial=counters['fixed_fg_cells'] > 0, counters=counters, sets=sets)
    o['executions'] = 2
    return o


def run_syntax_word_only(rng):
    """Two styles that meet inside a line and differ by the word 'syntax' only (--plus-style 'syntax X' next to
    --plus-emph-style 'normal X'): the emphasised part keeps its configured (absent) foreground, also when the boundary falls
    inside one token of the language.  Where the emphasised cells are is read from a reference run in which the emphasis style
    has a background of its own."""
    lang = rng.choice(sorted(snippets.SNIPPETS))
    name = rng.choice(snippets.NAMES[lang])
    ls = None
    for _ in range(8):
        ls = make_diff(rng, lang, name)
        if ls:
            break
    if not ls:
        return inconclusive('no diff')
    base = gen.tagged_styles()
    base['--paging'] = 'never'
    base['--syntax-theme'] = rng.choice(gen.THEMES_DARK)
    base['--dark'] = True
    variant = rng.choice(['same-bg', 'no-bg', 'attr'])
    tail = {'same-bg': lambda sl: ' ' + gen.TAGS[sl], 'no-bg': lambda sl: '', 'attr': lambda sl: ' bold'}[variant]
    ref, test = dict(base), dict(base)
    for side in ('minus', 'plus'):
        for o in (ref, test):
            o[SLOT_OPT[side]] = ('syntax' + tail(side)).strip()
            o.pop(SLOT_OPT[side + '_nonemph'], None)
        ref[SLOT_OPT[side + '_emph']] = 'normal ' + gen.TAGS[side + '_emph'] + (' bold' if variant == 'attr' else '')
        test[SLOT_OPT[side + '_emph']] = ('normal' + tail(side)).strip()
    view = 'sbs' if rng.random() < 0.25 else 'unified'
    if view == 'sbs':
        for o in (ref, test):
            o['--side-by-side'] = True
            o['--width'] = 160
    data = ('\n'.join(ls) + '\n').encode()
    a = runner.run_delta(gen.to_args(ref), data)
    b = runner.run_delta(gen.to_args(test), data)
    sets = {'languages': [lang], 'views': [view], 'sub': ['syntax-word-only'], 'syntax_word_variants': [variant]}
    counters = {'cells_compared': 0, 'emph_cells_without_syntax': 0, 'pairs': 1}
    for r in (a, b):
        c = crash_outcome(r, ID)
        if c is not None:
            c['executions'] = 2
            return c
        if r.rc != 0:
            return inconclusive('exit %d: %s' % (r.rc, r.err[:100]), sets=sets)

    def bad(key, what, exp, obs):
        o = violated('c15:syntax-word-only:' + key, what, exp, obs, run=b, counters=counters, sets=sets)
        o['executions'] = 2
        return o
    ra, rb = term.decode(a.out), term.decode(b.out)
    if len(ra) != len(rb):
        return bad('row-count', 'the reference and the test run have different numbers of rows', len(ra), len(rb))
    for i, (x, y) in enumerate(zip(ra, rb)):
        if len(x.cells) != len(y.cells) or x.text() != y.text():
            return bad('text', 'row %d differs in text between the two runs' % i, x.text()[:100], y.text()[:100])
        for cx, cy in zip(x.cells, y.cells):
            counters['cells_compared'] += 1
            slot = gen.TAG_BY_RGB.get(cx.bg)
            if slot in ('minus_emph', 'plus_emph'):
                counters['emph_cells_without_syntax'] += 1
                if cy.fg is not None:
                    return bad('emph-recoloured:' + variant, "an emphasised character whose style is 'normal' (no 'syntax') carries a foreground colour of the theme "
                               "(--%s-style %r, --%s-emph-style %r, row %d %r)" % (slot[:-5], test[SLOT_OPT[slot[:-5]]], slot[:-5], test[SLOT_OPT[slot]], i, x.text()[:60]),
                               None, repr(cy.fg))
            elif cx.fg != cy.fg:
                return bad('other-cell-changed', 'a character outside the emphasised parts has another foreground in the test run (row %d)' % i, repr(cx), repr(cy))
    o = held(sig=('syntax-word-only', lang, variant, view), nontrivial=counters['emph_cells_without_syntax'] > 0, counters=counters, sets=sets)
    o['executions'] = 2
    return o


def make_diff(rng, lang, name, context=None, plain=False):
    src = list(snippets.SNIPPETS[lang])
    new = list(src)
    for _ in range(rng.randint(1, 3)):
        k = rng.randrange(len(new))
        r = rng.random()
        if r < 0.5:
            new[k] = gen.mutate_text(rng, new[k])
        elif r < 0.75:
            new.insert(k, rng.choice(src))
        elif len(new) > 2:
            del new[k]
    import difflib
    body = list(difflib.unified_diff(src, new, 'a/' + name, 'b/' + name, lineterm='', n=rng.choice([1, 3]) if context is None else context))
    if not body:
        return None
    if plain:
        return body          # concatenated "diff -u" output / a patch file: sections start at their "--- " line
    return ['diff --git a/%s b/%s' % (name, name), 'index 1111111..2222222 100644'] + body


def slot_styles(rng):
    opts = gen.tagged_styles()
    syn = {}
    fixed = {}
    for sl in SLOTS:
        if rng.random() < 0.6:
            opts[SLOT_OPT[sl]] = 'syntax %s' % gen.TAGS[sl]
            syn[sl] = True
        else:
            fg = rng.choice(FIXED_FG)
            extra = rng.choice(['', ' bold', ' italic', ' ul'])
            opts[SLOT_OPT[sl]] = '%s %s%s' % (fg, gen.TAGS[sl], extra)
            syn[sl] = False
            fixed[sl] = term.color_of(fg)
    opts['--paging'] = 'never'
    return opts, syn, fixed


def decode_cells(out):
    return [[(c.ch, c.w, c.fg, c.bg, c.attrs, c.link) for c in r.cells] for r in term.decode(out)]


def run_grep_blame_name(rng):
    """grep hits and blame lines keep the directory in the path: two names of the same kind (Makefile / sub/Makefile, a.rs /
    src/deep/lib.rs) must colour the same code the same way."""
    from .. import corpus
    lang = rng.choice(sorted(snippets.SNIPPETS))
    names = snippets.NAMES[lang]
    n1, n2 = rng.sample(names, 2) if len(names) >= 2 else (names[0], names[0])
    code = [l for l in snippets.SNIPPETS[lang] if l.strip()][:rng.randint(2, 6)]
    cls_dark = rng.random() < 0.6
    theme = rng.choice(gen.THEMES_DARK if cls_dark else gen.THEMES_LIGHT)
    how = rng.choice(['rg-json', 'rg-json', 'git-grep', 'blame'])
    T = gen.TAGS
    opts = {'--paging': 'never', '--true-color': 'always', '--syntax-theme': theme, '--dark' if cls_dark else '--light': True,
            '--grep-match-line-style': 'syntax ' + T['grep_match_line'], '--grep-context-line-style': 'syntax ' + T['grep_context'],
            '--grep-match-word-style': 'syntax ' + T['grep_match_word'], '--grep-file-style': T['grep_file'], '--grep-line-number-style': T['grep_ln'],
            '--blame-code-style': 'syntax'}
    if rng.random() < 0.5:
        opts['--grep-output-type'] = rng.choice(['ripgrep', 'classic'])
    outs = []
    for name in (n1, n2):
        if how == 'rg-json':
            text = corpus.rg_json_text([(name, [(10 + i, 'match' if i % 2 == 0 else 'context', c, []) for i, c in enumerate(code)])])
            r = runner.run_delta(gen.to_args(opts), text.encode())
        elif how == 'git-grep':
            text = ''.join('%s:%d:%s\n' % (name, 10 + i, c) for i, c in enumerate(code))
            r = runner.run_delta(gen.to_args(opts), text.encode(), parent_argv=['git', 'grep', '-n', 'x'])
        else:
            text = ''.join('abcd%04d (Ann 2020-01-01 00:00:00 +0000 %d) %s\n' % (i // 2, i + 1, c) for i, c in enumerate(code))
            r = runner.run_delta(gen.to_args(opts), text.encode(), parent_argv=['git', 'blame', name])
        c = crash_outcome(r, ID)
        if c is not None:
            c['executions'] = 2
            return c
        if r.rc != 0:
            return inconclusive('exit %d: %s' % (r.rc, r.err[:100]))
        outs.append(r)
    sets = {'languages': [lang], 'views': [how], 'sub': ['grep-blame-name']}
    counters = {'cells_compared': 0, 'pairs': 1}

    def code_cells(res):
        rws = []
        for rw in term.decode(res.out):
            t = rw.text()
            cells = [c_ for c_ in rw.cells]
            if how == 'blame':
                k = t.find('│')
                k2 = t.find('│', k + 1)
                cells = cells[k2 + 1:] if k >= 0 and k2 > k else cells
            else:
                cells = [c_ for c_ in cells if gen.TAG_BY_RGB.get(c_.bg) in ('grep_match_line', 'grep_context', 'grep_match_word')]
            if cells:
                rws.append([(c_.ch, c_.fg, c_.attrs) for c_ in cells])
        return rws
    a, b = code_cells(outs[0]), code_cells(outs[1])
    hl = sum(1 for rw in a for c_ in rw if c_[1] is not None)
    counters['cells_compared'] = sum(len(rw) for rw in a)
    if a != b:
        k = next((i for i in range(min(len(a), len(b))) if a[i] != b[i]), min(len(a), len(b)))
        o = violated('c15:grep-blame-name:colouring-depends-on-directory', 'the same code is coloured differently for two file names of the same kind %r / %r in %s '
                     'input (the language is not chosen from the file name alone)' % (n1, n2, how), repr(a[k][:6]) if k < len(a) else None,
                     repr(b[k][:6]) if k < len(b) else None, run=outs[1], counters=counters, sets=sets)
        o['executions'] = 2
        return o
    o = held(sig=('grep-blame-name', lang, how, n1, n2, theme), nontrivial=hl > 0, counters=counters, sets=sets,
             sample={'sub': 'grep-blame-name', 'language': lang, 'input': how, 'names': [n1, n2], 'highlighted_cells': hl})
    o['executions'] = 2
    return o


EXT_OF = {'rs': 'rs', 'py': 'py', 'c': 'c', 'js': 'js', 'go': 'go', 'java': 'java', 'rb': 'rb', 'sh': 'sh', 'html': 'html', 'css': 'css',
          'json': 'json', 'md': 'md', 'yaml': 'yaml', 'toml': 'toml', 'hs': 'hs'}


def run_default_language(rng):
    """A file whose name says nothing (unknown extension, or a bare name even when its first line is a shebang) is coloured in
    the configured default language: exactly like the same diff of a file that has that language's extension."""
    lang = rng.choice(sorted(EXT_OF))
    ext = EXT_OF[lang]
    unknown = rng.choice(['f.xyzunknown', 'dir/data.qqq0', 'NOEXTENSIONNAME', 'sub/dir/zzzfile'])
    opts, syn, fixed = slot_styles(rng)
    cls_dark = rng.random() < 0.6
    opts['--dark' if cls_dark else '--light'] = True
    opts['--syntax-theme'] = rng.choice(gen.THEMES_DARK if cls_dark else gen.THEMES_LIGHT)
    st = rng.getstate()
    l1 = make_diff(rng, lang, unknown)
    rng.setstate(st)
    l2 = make_diff(rng, lang, 'known_name.' + ext)
    if l1 is None or l2 is None:
        return inconclusive('empty diff')
    if rng.random() < 0.3:
        # a default language that is not known, in a directory that holds a file of that name starting with a shebang: the
        # rendering may not depend on the directory delta is started in
        import tempfile
        import shutil
        o1 = dict(opts)
        o1['--default-language'] = 'zzunknownlang'
        outs_ = []
        for decoy in (False, True):
            cwd = tempfile.mkdtemp(prefix='c15cwd', dir=os.path.join(runner.workdir(), 'tmp'))
            if decoy:
                with open(os.path.join(cwd, 'zzunknownlang'), 'w') as f:
                    f.write(rng.choice(['#!/bin/bash', '#!/usr/bin/env python3', '#!/usr/bin/perl']) + '\nx = 1\n')
            outs_.append(runner.run_delta(gen.to_args(o1), ('\n'.join(l1) + '\n').encode(), cwd=cwd))
            shutil.rmtree(cwd, ignore_errors=True)
        sets = {'languages': [lang], 'views': ['unified'], 'sub': ['default-language-unknown']}
        for r in outs_:
            c = crash_outcome(r, ID)
            if c is not None:
                return c
        if outs_[0].out != outs_[1].out:
            o = violated('c15:default-language:depends-on-directory', 'with --default-language <unknown name> the colouring depends on whether the working directory holds a '
                         'file of that name (its first line is read)', None, None, run=outs_[1], sets=sets)
            o['executions'] = 2
            return o
        o = held(sig=('default-language-unknown', lang, unknown), nontrivial=True, counters={'pairs': 1}, sets=sets)
        o['executions'] = 2
        return o
    o1 = dict(opts)
    o1['--default-language'] = ext
    # the working directory holds a file of that very name whose first line announces another language: the name alone
    # decides, the file may not be looked at
    import tempfile
    cwd = tempfile.mkdtemp(prefix='c15cwd', dir=os.path.join(runner.workdir(), 'tmp'))
    other = rng.choice([l for l in ('py', 'sh', 'rb') if l != ext])
    first = {'py': '#!/usr/bin/env python3', 'sh': '#!/bin/bash', 'rb': '#!/usr/bin/env ruby'}[other]
    for rel in {unknown, os.path.basename(unknown)}:
        os.makedirs(os.path.join(cwd, os.path.dirname(rel)), exist_ok=True)
        with open(os.path.join(cwd, rel), 'w') as f:
            f.write(first + '\nx = 1\n')
    a = runner.run_delta(gen.to_args(o1), ('\n'.join(l1) + '\n').encode(), cwd=cwd)
    b = runner.run_delta(gen.to_args(opts), ('\n'.join(l2) + '\n').encode(), cwd=cwd)
    import shutil
    shutil.rmtree(cwd, ignore_errors=True)
    for r in (a, b):
        c = crash_outcome(r, ID)
        if c is not None:
            c['executions'] = 2
            return c
        if r.rc != 0:
            return inconclusive('exit %d: %s' % (r.rc, r.err[:100]))
    sets = {'languages': [lang], 'views': ['unified'], 'sub': ['default-language']}
    counters = {'cells_compared': 0, 'pairs': 1}

    def code_rows(res):
        out = []
        for rw in term.decode(res.out):
            if rows.classify(rw).kind == 'code':
                out.append([(c_.ch, c_.fg, c_.bg, c_.attrs) for c_ in rw.cells])
        return out
    ca, cb = code_rows(a), code_rows(b)
    counters['cells_compared'] = sum(len(r_) for r_ in ca)
    hl = sum(1 for r_ in cb for c_ in r_ if gen.TAG_BY_RGB.get(c_[2]) in syn and syn[gen.TAG_BY_RGB.get(c_[2])] and c_[1] is not None)
    if ca != cb:
        k = next((i for i in range(min(len(ca), len(cb))) if ca[i] != cb[i]), min(len(ca), len(cb)))
        o = violated('c15:default-language:not-applied', 'a file with an unrecognised name (%r) under --default-language %s is not coloured like the same diff of a .%s file'
                     % (unknown, ext, ext), repr(cb[k][:6]) if k < len(cb) else None, repr(ca[k][:6]) if k < len(ca) else None, run=a, counters=counters, sets=sets)
        o['executions'] = 2
        return o
    o = held(sig=('default-language', lang, unknown, tuple(sorted(k for k, v in syn.items() if v))), nontrivial=hl > 0, counters=counters, sets=sets,
             sample={'sub': 'default-language', 'language': lang, 'unknown_name': unknown, 'highlighted_cells': hl})
    o['executions'] = 2
    return o


def run_item(item):
    kind, seed = item
    rng = engine.item_rng(seed)
    if kind == 'grep-blame-name':
        return run_grep_blame_name(rng)
    if kind == 'default-language':
        return run_default_language(rng)
    if kind == 'syntax-word-only':
        return run_syntax_word_only(rng)
    if kind == 'fixed-fg-grep-blame':
        return run_fixed_fg_grep_blame(rng)
    lang = rng.choice(sorted(snippets.SNIPPETS))
    names = snippets.NAMES[lang]
    opts, syn, fixed = slot_styles(rng)
    view = 'sbs' if rng.random() < 0.3 else 'unified'
    if view == 'sbs':
        opts['--side-by-side'] = True
        opts['--width'] = rng.choice([80, 121, 160])
    if rng.random() < 0.4:
        opts['--line-numbers'] = True
    cls_dark = rng.random() < 0.6
    opts['--dark' if cls_dark else '--light'] = True
    themes = gen.THEMES_DARK if cls_dark else gen.THEMES_LIGHT
    if rng.random() < 0.2:
        opts['--default-language'] = rng.choice(['rs', 'py', 'txt'])
    untagged_syntax = False
    if kind == 'theme' and view == 'sbs' and rng.random() < 0.3:
        # only the emphasis style of removed lines is configured (without 'syntax'); --minus-style and the non-emph style
        # keep their side-by-side defaults, which are syntax-highlighted and carry none of the reserved colours
        for sl in ('minus', 'minus_nonemph'):
            opts.pop(SLOT_OPT[sl], None)
            syn.pop(sl, None)
            fixed.pop(sl, None)
        opts[SLOT_OPT['minus_emph']] = 'normal %s' % gen.TAGS['minus_emph']
        syn['minus_emph'] = False
        fixed['minus_emph'] = None
        untagged_syntax = True
    if kind == 'theme':
        name = rng.choice(names)
        lines = make_diff(rng, lang, name)
        if lines is None:
            return inconclusive('empty diff')
        if rng.random() < 0.35:
            # lines longer than the highlighting limit are highlighted up to it only; the rest (here often blanks) stays as it is
            opts['--max-syntax-highlighting-length'] = rng.choice([0, 1, 8, 14, 30, 60])
            lines = [l + rng.choice(['  ', ' ', '\t', '   \t ', ' x']) if l[:1] in ' +-' and not l.startswith(('--- ', '+++ ')) and rng.random() < 0.4 else l
                     for l in lines]
        t1, t2 = rng.sample(themes + ['none'], 2)
        o1, o2 = dict(opts), dict(opts)
        o1['--syntax-theme'], o2['--syntax-theme'] = t1, t2
        data = ('\n'.join(lines) + '\n').encode()
        a = runner.run_delta(gen.to_args(o1), data)
        b = runner.run_delta(gen.to_args(o2), data)
        label = (t1, t2)
    elif kind == 'neighbour':
        # the same section between two different pairs of neighbouring sections (other languages): its rows may not change
        plain = rng.random() < 0.5
        ctxlines = rng.choice([0, 0, 1, 3])
        name = rng.choice(names)
        mid = make_diff(rng, lang, name, ctxlines, plain)
        others = [l for l in sorted(snippets.SNIPPETS) if l != lang]
        nb = []
        for _ in range(4):
            lo = rng.choice(others)
            nb.append(make_diff(rng, lo, rng.choice(snippets.NAMES[lo]), ctxlines, plain))
        if mid is None or any(x is None for x in nb):
            return inconclusive('empty diff')
        opts['--syntax-theme'] = rng.choice(themes)
        a = runner.run_delta(gen.to_args(opts), ('\n'.join(nb[0] + mid + nb[1]) + '\n').encode())
        b = runner.run_delta(gen.to_args(opts), ('\n'.join(nb[2] + mid + nb[3]) + '\n').encode())
        label = ('plain' if plain else 'git', ctxlines)
    else:
        n1, n2 = rng.sample(names, 2) if len(names) >= 2 else (names[0], names[0])
        # identical edit for both names
        st = rng.getstate()
        l1 = make_diff(rng, lang, n1)
        rng.setstate(st)
        l2 = make_diff(rng, lang, n2)
        if l1 is None or l2 is None:
            return inconclusive('empty diff')
        label = (n1, n2)
        if rng.random() < 0.3:
            # the same lines removed from / added to the file, once as a deleted / new file (one side is /dev/null) and once
            # as an ordinary change of that file: the name is the same, so is the language
            src = list(snippets.SNIPPETS[lang])
            which = rng.choice(['deleted', 'added'])
            mk, cnt = ('-', '-1,%d +0,0' % len(src)) if which == 'deleted' else ('+', '-0,0 +1,%d' % len(src))
            body = ['@@ %s @@' % cnt] + [mk + t for t in src]
            if which == 'deleted':
                l1 = ['diff --git a/%s b/%s' % (n1, n1), 'deleted file mode 100644', 'index 1111111..0000000', '--- a/' + n1, '+++ /dev/null'] + body
            else:
                l1 = ['diff --git a/%s b/%s' % (n1, n1), 'new file mode 100644', 'index 0000000..1111111', '--- /dev/null', '+++ b/' + n1] + body
            l2 = ['diff --git a/%s b/%s' % (n1, n1), 'index 1111111..2222222 100644', '--- a/' + n1, '+++ b/' + n1] + body
            label = (which + ' ' + n1, 'changed ' + n1)
        elif rng.random() < 0.3:
            # the file renamed (or copied) from a name of another kind, with the same changes: the hunks are those of the new
            # name, whose language they are shown in
            other = rng.choice([l_ for l_ in sorted(snippets.SNIPPETS) if l_ != lang])
            old = 'tools/' + rng.choice(snippets.NAMES[other] + ['REPORT', 'notes'])
            word = rng.choice(['rename', 'copy'])
            hunks = l1[4:]
            l2 = l1
            l1 = ['diff --git a/%s b/%s' % (old, n1), 'similarity index 80%', '%s from %s' % (word, old), '%s to %s' % (word, n1), 'index 1111111..2222222 100644',
                  '--- a/' + old, '+++ b/' + n1] + hunks
            label = ('%s from %s to %s' % (word, old, n1), 'changed ' + n1)
        opts['--syntax-theme'] = rng.choice(themes)
        a = runner.run_delta(gen.to_args(opts), ('\n'.join(l1) + '\n').encode())
        b = runner.run_delta(gen.to_args(opts), ('\n'.join(l2) + '\n').encode())
    for r in (a, b):
        c = crash_outcome(r, ID)
        if c is not None:
            c['executions'] = 2
            return c
        if r.rc != 0:
            return inconclusive('exit %d: %s' % (r.rc, r.err[:100]))
    ra, rb = term.decode(a.out), term.decode(b.out)
    counters = {'cells_compared': 0, 'fg_differences': 0, 'fixed_fg_cells': 0, 'pairs': 1}
    sets = {'languages': [lang], 'views': [view], 'sub': [kind]}

    def bad(key, what, exp, obs):
        o = violated('c15:' + key, what, exp, obs, run=b, counters=counters, sets=sets)
        o['executions'] = 2
        return o
    if kind == 'neighbour':
        def middle(rws):
            idx = [i for i, r in enumerate(rws) if rows.classify(r).kind == 'file']
            return rws[idx[1]:idx[2]] if len(idx) == 3 else None
        ma, mb = middle(ra), middle(rb)
        if ma is None or mb is None:
            return bad('neighbour:sections', 'three file sections were given, the output does not show three file headers', 3, 'see run')
        sets['neighbour_formats'] = ['%s/context%d' % label]
        if len(ma) != len(mb):
            return bad('neighbour:row-count', 'a section is rendered with different numbers of rows depending on its neighbours', len(ma), len(mb))
        hl = 0
        for i, (x, y) in enumerate(zip(ma, mb)):
            tx = [(c.ch, c.w, c.fg, c.bg, c.attrs) for c in x.cells]
            ty = [(c.ch, c.w, c.fg, c.bg, c.attrs) for c in y.cells]
            counters['cells_compared'] += len(tx)
            hl += sum(1 for c in x.cells if gen.TAG_BY_RGB.get(c.bg) in syn and syn[gen.TAG_BY_RGB.get(c.bg)] and c.fg is not None)
            if tx != ty:
                d = next((k for k in range(min(len(tx), len(ty))) if tx[k] != ty[k]), min(len(tx), len(ty)))
                return bad('neighbour:colouring-depends-on-neighbour', 'row %d of a file section is coloured differently when the neighbouring sections are files of '
                           'other languages (language is not chosen from the file name alone); %s' % (i, label), repr(tx[d:d + 3]), repr(ty[d:d + 3]))
        o = held(sig=(kind, lang, label, tuple(sorted(k for k, v in syn.items() if v)), view), nontrivial=hl > 0, counters=counters, sets=sets,
                 sample={'sub': kind, 'language': lang, 'format': label})
        o['executions'] = 2
        return o
    if len(ra) != len(rb):
        return bad(kind + ':row-count', 'the two runs have different numbers of rows (%d vs %d) for %s' % (len(ra), len(rb), label), len(ra), len(rb))
    highlighted = 0
    for i, (x, y) in enumerate(zip(ra, rb)):
        ix = rows.classify(x)
        if kind == 'rename' and ix.kind != 'code':
            continue    # headers show the (different) names
        if len(x.cells) != len(y.cells):
            return bad(kind + ':cell-count', 'row %d has different numbers of cells in the two runs (%s)' % (i, label), x.text()[:100], y.text()[:100])
        for cx, cy in zip(x.cells, y.cells):
            counters['cells_compared'] += 1
            if (cx.ch, cx.w, cx.bg, cx.attrs, cx.link) != (cy.ch, cy.w, cy.bg, cy.attrs, cy.link):
                return bad(kind + ':non-foreground-changed', 'a cell differs in character, background, attributes or link between the two runs (%s), row %d'
                           % (label, i), repr(cx), repr(cy))
            slot = gen.TAG_BY_RGB.get(cx.bg)
            if slot in fixed:
                counters['fixed_fg_cells'] += 1
                if cx.fg != fixed[slot] or cy.fg != fixed[slot]:
                    return bad(kind + ':non-syntax-style-recoloured', 'text whose style does not ask for "syntax" does not carry its configured foreground (slot %s)' % slot,
                               repr(fixed[slot]), repr((cx.fg, cy.fg)))
            if cx.fg != cy.fg:
                if kind == 'rename':
                    return bad('rename:colouring-depends-on-name', 'per-cell foreground differs between two file names of the same kind %s' % (label,), repr(cx), repr(cy))
                if (slot in syn and syn[slot]) or (slot is None and untagged_syntax):
                    counters['fg_differences'] += 1
                else:
                    return bad('theme:foreground-changed-outside-syntax-style', 'foreground differs between themes on a cell whose style is not syntax-highlighted (slot %s)' % slot,
                               repr(cx), repr(cy))
            if slot in syn and syn[slot] and cx.fg is not None:
                highlighted += 1
    nontrivial = counters['fg_differences'] > 0 if kind == 'theme' else highlighted > 0
    o = held(sig=(kind, lang, label if kind == 'theme' else lang, tuple(sorted(k for k, v in syn.items() if v)), view), nontrivial=nontrivial,
             counters=counters, sets=sets, sample={'sub': kind, 'language': lang, 'pair': label, 'syntax_slots': sorted(k for k, v in syn.items() if v),
                                                   'fg_differences': counters['fg_differences']})
    o['executions'] = 2
    return o


def floors(ctx, agg):
    p = []
    if len(agg.sets.get('languages', ())) < 12:
        p.append('fewer than 12 languages')
    if agg.counters.get('fg_differences', 0) < 1000:
        p.append('fewer than 1000 foreground differences observed between themes (highlighting not exercised)')
    if agg.counters.get('fixed_fg_cells', 0) < 1000:
        p.append('fewer than 1000 cells of non-syntax styles checked')
    return p
