"""C20 - calling-process detection gives the same answer under every thread schedule."""
import os
import subprocess
import time
import shlex

from .. import build, corpus, engine, gen, runner, term
from ..engine import held, inconclusive, violated
from .. import crash as crashmod

ID = 'C20'
LEVEL = 'exploration'
RULE = ('scenarios (stdin mode with the parent impersonating git show REV:file / git diff --word-diff / git blame / git grep / '
        'nothing; delta rg|git blame|git grep ... with a parent that makes the background guess differ from the known command) x '
        'every feasible order of the critical sections at gate granularity (background store before / between / after the known '
        'store and each query; background store released while query 1 is already waiting on the condition variable), then '
        'runs with delays injected from outside (LD_PRELOAD shim) before/after the wake-all futex call of either thread, '
        'seeded-jitter and unforced runs; an offline checker replays the recorded trace against a sequential register model; '
        'distinct = (scenario, schedule); non-trivial = the schedule was actually realised (gate order confirmed in the trace)')
ASSUMPTIONS = ['hooks are compiled in with --cfg dandavison_delta_verif; gates sit before lock acquisitions and after releases only',
               'liveness is restated as bounded progress: every query returns within the run; a run whose threads all sleep in '
               'futex without consuming CPU after the hold was released is a deadlock']
SERIAL = False
CHUNK = 1
EXTRA_VARIANTS = {'quick': [], 'thorough': ['tsan']}

RUST_CODE = 'fn main() {\n    let x: u32 = 1; // c\n    println!("{}", x);\n}\n'
BLAME = corpus.blame_text([{'commit': {'hash': 'abcd1234', 'boundary': False, 'author': 'Ann', 'time': '2020-01-01 00:00:00', 'tz': '+0000'},
                            'lineno': i + 1, 'code': l, 'file': None} for i, l in enumerate(RUST_CODE.strip('\n').split('\n'))])
WORD_DIFF = ('diff --git a/f.txt b/f.txt\nindex 1111111..2222222 100644\n--- a/f.txt\n+++ b/f.txt\n@@ -1,2 +1,2 @@\n'
             'same \x1b[31m[-old-]\x1b[m\x1b[32m{+new+}\x1b[m words\n unchanged\n')
PLAIN_DIFF = ('diff --git a/src/f.txt b/src/f.txt\nindex 1111111..2222222 100644\n--- a/src/f.txt\n+++ b/src/f.txt\n@@ -1,2 +1,2 @@\n'
              ' unchanged\n-old\n+new\n')
GREP_PLAIN = 'src/main.rs:10:fn main() {\nsrc/main.rs:12:    let x = 1;\nsrc/lib.rs:3:pub fn f() {}\n'
RG_JSON = corpus.rg_json_text([('src/main.rs', [(10, 'match', 'fn main() {', [(0, 2)]), (12, 'context', '    let x = 1;', [])])])
GIT_GREP_COLOR = corpus.grep_text_git_color([('src/main.rs', [(10, 'match', 'fn main() {', [(0, 2)])])], True)

# name -> (delta args, stdin, parent argv, stub output, expected known value prefix or None, expected guess prefix)
SCENARIOS = {
    'stdin/git-show-file': ([], RUST_CODE, ['git', 'show', 'HEAD:src/f.rs'], None, None, 'GitShow'),
    'stdin/git-diff-word-diff': ([], WORD_DIFF, ['git', 'diff', '--word-diff'], None, None, 'GitDiff'),
    'stdin/git-blame': ([], BLAME, ['git', 'blame', 'src/f.rs'], None, None, 'GitBlame'),
    'stdin/git-grep': ([], GREP_PLAIN, ['git', 'grep', '-n', 'x'], None, None, 'GitGrep'),
    'stdin/rg': ([], GREP_PLAIN, ['rg', '-n', 'x'], None, None, 'OtherGrep'),
    'stdin/none': ([], RUST_CODE, ['git', 'verif-neutral-parent'], None, None, 'None'),
    'known/rg-vs-git-show': (['rg', 'fn'], None, ['git', 'show', 'HEAD:src/f.rs'], RG_JSON, 'OtherGrep', 'GitShow'),
    'known/git-blame-vs-git-grep': (['git', 'blame', 'src/f.rs'], None, ['git', 'grep', 'x'], BLAME, 'GitBlame', 'GitGrep'),
    'known/git-grep-vs-git-blame': (['git', 'grep', '-n', 'fn'], None, ['git', 'blame', 'x.rs'], GIT_GREP_COLOR, 'GitGrep', 'GitBlame'),
    'known/rg-vs-none': (['rg', 'fn'], None, ['git', 'verif-neutral-parent'], RG_JSON, 'OtherGrep', 'None'),
    # options whose evaluation consults the calling process while the configuration is built (word-diff detection)
    'known/git-diff-word-diff-ln-vs-git-blame': (['--line-numbers', 'git', 'diff', '--word-diff'], None, ['git', 'blame', 'x.rs'], WORD_DIFF, 'GitDiff', 'GitBlame'),
    'known/git-diff-word-diff-sbs-vs-none': (['--side-by-side', 'git', 'diff', '--color-words'], None, ['git', 'verif-neutral-parent'], WORD_DIFF, 'GitDiff', 'None'),
    'known/git-show-file-vs-git-grep': (['git', 'show', 'HEAD:src/f.rs'], None, ['git', 'grep', 'x'], RUST_CODE, 'GitShow', 'GitGrep'),
    'stdin/git-diff-word-diff-ln': (['--line-numbers'], WORD_DIFF, ['git', 'diff', '--word-diff'], None, None, 'GitDiff'),
    # options whose handling asks for the calling process more than once per line (relative paths, hyperlinks): a query made
    # while the answer of another one is still held must not block
    'stdin/none-relative-paths': (['--relative-paths'], PLAIN_DIFF, ['git', 'verif-neutral-parent'], None, None, 'None'),
    'stdin/git-diff-relative-paths-hyperlinks': (['--relative-paths', '--hyperlinks', '--line-numbers'], PLAIN_DIFF, ['git', 'diff'], None, None, 'GitDiff'),
    'known/git-show-relative-paths': (['--relative-paths', 'git', 'show'], None, ['git', 'verif-neutral-parent'], PLAIN_DIFF, 'GitShow', 'None'),
    # global git options in front of the subcommand: the launched command is still the launched command
    'known/git-no-pager-grep-vs-git-blame': (['git', '--no-pager', 'grep', '-n', 'fn'], None, ['git', 'blame', 'x.rs'], GIT_GREP_COLOR, 'GitGrep', 'GitBlame'),
    'known/git-C-blame-vs-none': (['git', '-C', '.', 'blame', 'src/f.rs'], None, ['git', 'verif-neutral-parent'], BLAME, 'GitBlame', 'None'),
    'known/git-c-diff-word-diff-vs-git-grep': (['--line-numbers', 'git', '-c', 'color.ui=always', 'diff', '--word-diff'], None, ['git', 'grep', 'x'], WORD_DIFF, 'GitDiff', 'GitGrep'),
    # delta launches a command it has no description for (nothing is published): queries must be answered by the
    # background determination, under every schedule, and never wait for ever
    'launched-unparsed/git-status-vs-git-grep': (['--line-numbers', 'git', 'status'], None, ['git', 'grep', '-n', 'x'], GREP_PLAIN, None, 'GitGrep'),
    'launched-unparsed/git-alias-vs-none': (['--side-by-side', 'git', 'd'], None, ['git', 'verif-neutral-parent'], WORD_DIFF, None, 'None'),
}

_QUERIES = {}
# (thread name as the kernel shows it, ms before the wake-all, ms after it)
SYNC_DELAYS = [('find_calling_pr', 300, 300), ('find_calling_pr', 0, 400), ('find_calling_pr', 400, 0), ('delta', 200, 200),
               # a background determination that takes long (a slow process table): the query waits as long as it takes
               ('find_calling_pr', 1500, 0)]


SYNC_SHIM = os.path.join(runner.STUBS, 'syncdelay.so')


THREADFAIL_SHIM = os.path.join(runner.STUBS, 'threadfail.so')


def prepare(ctx):
    for shim in (SYNC_SHIM, THREADFAIL_SHIM):
        src = shim[:-3] + '.c'
        if not os.path.exists(shim) or os.path.getmtime(shim) < os.path.getmtime(src):
            subprocess.run(['clang', '-O2', '-shared', '-fPIC', '-o', shim + '.%d' % os.getpid(), src, '-ldl'], check=True)
            os.rename(shim + '.%d' % os.getpid(), shim)


def reference_schedule(name):
    """Background determination completes before anything the main thread does with the cell.  Only gates that the
    scenario reaches may be listed (a listed gate that is never reached would block the later ones for ever)."""
    if SCENARIOS[name][4] is not None:
        return ['bg:before_lock', 'bg:done', 'set:before_lock']
    return ['bg:before_lock', 'bg:done', 'query1:before_lock']


def run_scenario(name, sched=None, hold=False, jitter=None, variant='hooks', timeout=20.0, jitter_max_us=None, _retry=False, syncdelay=None, threadfail=None):
    """Runs one scenario under one schedule.  Returns dict(out, err, rc, trace, timed_out, deadlock, hold_released)."""
    args, stdin, parent, stub_out, known, guess = SCENARIOS[name]
    w = runner.workdir()
    tdir = os.path.join(w, 'tmp')
    uid = '%d_%d' % (os.getpid(), int(time.time() * 1e6))
    trace_path = os.path.join(tdir, 'c20trace.' + uid)
    env = runner.base_env({'DELTA_VERIF_TRACE': trace_path}, path_prefix=os.path.join(runner.STUBS, 'bin'))
    if stub_out is not None:
        sp = os.path.join(tdir, 'c20stub.' + uid)
        with open(sp, 'w') as f:
            f.write(stub_out)
        env['VERIF_STUB_OUT'] = sp
    if sched:
        env['DELTA_VERIF_SCHED'] = ','.join(sched)
    hold_path = None
    if hold:
        hold_path = os.path.join(tdir, 'c20hold.' + uid)
        env['DELTA_VERIF_HOLD'] = 'bg:before_lock=' + hold_path
    if jitter is not None:
        env['DELTA_VERIF_JITTER'] = str(jitter)
        if jitter_max_us:
            env['DELTA_VERIF_JITTER_MAX_US'] = str(jitter_max_us)
    sync_log = None
    if syncdelay is not None:
        sync_log = os.path.join(tdir, 'c20sync.' + uid)
        env.update({'LD_PRELOAD': SYNC_SHIM, 'SYNCDELAY_THREAD': syncdelay[0], 'SYNCDELAY_BEFORE_MS': str(syncdelay[1]),
                    'SYNCDELAY_AFTER_MS': str(syncdelay[2]), 'SYNCDELAY_LOG': sync_log})
    if threadfail is not None:
        sync_log = os.path.join(tdir, 'c20tf.' + uid)
        env.update({'LD_PRELOAD': THREADFAIL_SHIM, 'THREADFAIL_NTH': str(threadfail), 'THREADFAIL_LOG': sync_log})
    if variant == 'tsan':
        env['TSAN_OPTIONS'] = 'halt_on_error=0 exitcode=66 report_signal_unsafe=0'
    exe = runner.binary(variant)
    dargs = ['--paging', 'never', '--no-gitconfig'] + args
    script = ' '.join(shlex.quote(a) for a in [exe] + dargs) + '; rc=$?; exit $rc'
    argv = [parent[0], '-c', script] + parent[1:]
    proc = subprocess.Popen(argv, executable='/bin/sh', stdin=subprocess.PIPE if stdin is not None else subprocess.DEVNULL,
                            stdout=subprocess.PIPE, stderr=subprocess.PIPE, env=env, cwd=os.path.join(w, 'cwd'),
                            start_new_session=True)
    res = {'hold_released': None, 'deadlock': False, 'timed_out': False}
    try:
        if stdin is not None:
            try:
                proc.stdin.write(stdin.encode())
                proc.stdin.close()
            except BrokenPipeError:
                pass
            proc.stdin = None
        if hold:
            res['hold_released'] = release_when_waiting(proc, trace_path, hold_path, extra_wait=hold if isinstance(hold, float) else 0)
        try:
            out, err = proc.communicate(timeout=timeout)
        except subprocess.TimeoutExpired:
            res['timed_out'] = True
            res['deadlock'] = looks_deadlocked(proc.pid)
            try:
                os.killpg(proc.pid, 9)
            except OSError:
                pass
            out, err = proc.communicate()
    finally:
        for pth in (hold_path,):
            if pth and os.path.exists(pth):
                os.unlink(pth)
    trace = []
    try:
        with open(trace_path) as f:
            trace = f.read().splitlines()
        os.unlink(trace_path)
    except OSError:
        pass
    if stub_out is not None:
        os.unlink(env['VERIF_STUB_OUT'])
    res.update({'out': out, 'err': err, 'rc': proc.returncode, 'trace': trace})
    if sync_log is not None:
        try:
            with open(sync_log) as f:
                res['sync_delays'] = len(f.read().splitlines())
            os.unlink(sync_log)
        except OSError:
            res['sync_delays'] = 0
    if res['timed_out'] and not res['deadlock'] and not _retry:
        # threads were busy, not asleep: a slow machine or a thread that spins. One more try with four times the time
        # settles it (these inputs are a few hundred bytes)
        again = run_scenario(name, sched=sched, hold=hold, jitter=jitter, variant=variant, timeout=4 * timeout, jitter_max_us=jitter_max_us, _retry=True, syncdelay=syncdelay, threadfail=threadfail)
        again['retried'] = True
        if again['timed_out'] and not again['deadlock']:
            again['no_termination'] = True
        return again
    return res


def delta_pid_of(shell_pid):
    try:
        with open('/proc/%d/task/%d/children' % (shell_pid, shell_pid)) as f:
            kids = f.read().split()
        return int(kids[0]) if kids else None
    except (OSError, ValueError):
        return None


def main_thread_waiting(pid):
    """Main thread sleeps in futex (condition variable wait)."""
    try:
        with open('/proc/%d/task/%d/stat' % (pid, pid)) as f:
            st = f.read().rsplit(')', 1)[1].split()
        if st[0] != 'S':
            return False
        with open('/proc/%d/task/%d/syscall' % (pid, pid)) as f:
            sc = f.read().split()
        return sc and sc[0] == '202'
    except OSError:
        return False


def release_when_waiting(proc, trace_path, hold_path, extra_wait=0):
    """Wait (logically) until query 1 has passed its gate and the main thread sleeps in futex, then release the
    background thread.  Returns 'waiting' when that state was reached, 'not-reached' otherwise (the hold is released
    anyway so that the run can end)."""
    deadline = time.time() + 10
    state = 'not-reached'
    while time.time() < deadline and proc.poll() is None:
        try:
            with open(trace_path) as f:
                t = f.read()
        except OSError:
            t = ''
        if 'gate query1:before_lock passed' in t:
            pid = delta_pid_of(proc.pid)
            if pid and main_thread_waiting(pid):
                # confirm twice: the thread is parked, not just passing through a futex call
                time.sleep(0.005)
                if main_thread_waiting(pid):
                    state = 'waiting'
                    break
        time.sleep(0.002)
    if state == 'waiting' and extra_wait:
        # the query keeps waiting, however long the background determination takes
        time.sleep(extra_wait)
        pid = delta_pid_of(proc.pid)
        if proc.poll() is not None or not (pid and main_thread_waiting(pid)):
            state = 'gave-up-waiting'
    with open(hold_path, 'w') as f:
        f.write('go')
    return state


def looks_deadlocked(shell_pid):
    pid = delta_pid_of(shell_pid)
    if not pid:
        return False
    def cpu():
        tot = 0
        states = []
        for tid in os.listdir('/proc/%d/task' % pid):
            with open('/proc/%d/task/%s/stat' % (pid, tid)) as f:
                st = f.read().rsplit(')', 1)[1].split()
            states.append(st[0])
            tot += int(st[11]) + int(st[12])
        return tot, states
    try:
        a, s1 = cpu()
        time.sleep(0.3)
        b, s2 = cpu()
        time.sleep(0.3)
        c, s3 = cpu()
        return a == b == c and all(x == 'S' for x in s1 + s2 + s3)
    except (OSError, IndexError, ValueError):
        return False


def check_trace(name, trace):
    """Offline checker: replay the recorded events against the sequential model (a register with a
    known-beats-guess rule).  Returns (problem or None, summary)."""
    _, _, _, _, known, guess = SCENARIOS[name]
    reg = 'Pending'
    known_set = False
    known_val = None
    nq = 0
    bg_store = None
    for line in trace:
        if line.startswith('store known now='):
            v = line[len('store known now='):]
            reg = v
            known_set = True
            known_val = v
            if known and not v.startswith(known):
                return ('known-value', 'the command delta launched is recorded as %r, expected %s' % (v, known)), None
        elif line.startswith('store bg now='):
            v = line[len('store bg now='):]
            bg_store = v
            if known_set:
                if v != known_val:
                    return ('known-overwritten', 'the background guess overwrote the known command: cell holds %r after the '
                            'background store, known value was %r' % (v, known_val)), None
            else:
                reg = v
                if not v.startswith(guess):
                    return ('guess-value', 'background determination stored %r, expected %s...' % (v, guess)), None
        elif line.startswith('query') and ' -> ' in line:
            v = line.split(' -> ', 1)[1]
            nq += 1
            if v == 'Pending':
                return ('pending-returned', 'a query returned while the cell was still Pending (%s)' % line), None
            if v != reg:
                return ('stale-answer', 'query returned %r but the cell holds %r' % (v, reg)), None
            if known_set and v != known_val:
                return ('known-not-reported', 'after the known store a query returned %r' % v), None
            if known and not v.startswith(known):
                # delta launched the command itself: no query may ever be answered with anything else (an answer taken
                # before the known store is cached by its consumer for the rest of the run)
                return ('known-not-reported', 'delta launched the command itself (%s) but a query was answered %r (%s)' % (known, v, line)), None
    return None, {'queries': nq, 'bg_store': bg_store, 'known': known_val}


def gate_order(trace):
    return [l.split()[1] for l in trace if l.startswith('gate ') and l.endswith(' passed')]


def schedules_for(name, nq):
    """All feasible placements of the background store B among the main thread's critical sections."""
    known = SCENARIOS[name][4] is not None
    out = []
    qs = ['query%d:before_lock' % i for i in range(1, nq + 1)]
    if known:
        out.append(('B<K', ['bg:before_lock', 'bg:done', 'set:before_lock']))
        out.append(('K<B<Q1', ['set:before_lock', 'set:done', 'bg:before_lock', 'bg:done'] + qs[:1]))
        for i in range(1, nq):
            out.append(('Q%d<B<Q%d' % (i, i + 1), [qs[i - 1], 'bg:before_lock', 'bg:done', qs[i]]))
        if nq:
            out.append(('Q%d<B' % nq, [qs[nq - 1], 'bg:before_lock']))
    else:
        out.append(('B<Q1', ['bg:before_lock', 'bg:done'] + qs[:1]))
        out.append(('Q1-waits-then-B', 'HOLD'))
        out.append(('Q1-waits-long-then-B', 'HOLD-LONG'))
    return out


def plan(ctx):
    items = []
    for name in sorted(SCENARIOS):
        items.append(('forced', name))
    # delays injected from outside at the wake-all of either thread (no hook involved): before it, after it, both
    for name in sorted(SCENARIOS):
        for k, sd in enumerate(SYNC_DELAYS):
            if sd[0] == 'delta' and SCENARIOS[name][4] is None:
                continue        # the main thread only notifies when delta launched the command
            for rep in range(ctx.n(1, 6)):
                items.append(('syncdelay', name, k, rep))
    # a thread that cannot be started (pthread_create refused once, as when a task limit is hit for a moment): whatever delta
    # makes of it, no query may wait for an answer that nobody is going to publish
    for name in sorted(SCENARIOS):
        for nth in (1, 2):
            for rep in range(ctx.n(1, 4)):
                items.append(('threadfail', name, nth, rep))
    for i in range(ctx.n(300, 12000)):
        items.append(('jitter', sorted(SCENARIOS)[i % len(SCENARIOS)], engine.stable_hash((ctx.seed, 'jit', i)) % 100000))
    for i in range(ctx.n(100, 4000)):
        items.append(('unforced', sorted(SCENARIOS)[i % len(SCENARIOS)], i))
    if ctx.tier == 'thorough':
        for i in range(ctx.n(0, 1500)):
            items.append(('tsan', sorted(SCENARIOS)[i % len(SCENARIOS)], engine.stable_hash((ctx.seed, 'tsan', i)) % 100000))
    return items


def EXHAUSTIVE(ctx):
    return True


EXHAUSTIVE_SCOPE = ('every placement of the background store among the main thread\'s critical sections (known store, query 1..n) '
                    'for each of the %d scenarios, at gate granularity; jitter/unforced/TSan runs are sampled') % len(SCENARIOS)


def evaluate(name, r, label, reference_out=None):
    """Common verdict for one execution."""
    sets = {'scenarios': [name], 'schedules': ['%s|%s' % (name, label)]}
    counters = {'trace_events': len(r['trace'])}

    class _R(object):
        pass
    rr = _R()
    rr.err = r['err']
    rr.timed_out = False
    rr.signal = None
    rr.rc = r['rc']
    if r['timed_out']:
        if r['deadlock']:
            return violated('c20:deadlock:' + label.split('#')[0], 'no progress: all threads sleep in futex and consume no CPU (%s, schedule %s)' % (name, label),
                            extra={'trace': r['trace'][-20:]}, counters=counters, sets=sets)
        if r.get('no_termination'):
            return violated('c20:no-termination:' + label.split('#')[0], 'no termination within %s s, twice, on an input of a few hundred bytes; the threads are not asleep (a spin or livelock) '
                            '(%s, schedule %s)' % ('20 and 80', name, label), extra={'trace': r['trace'][-20:]}, counters=counters, sets=sets)
        return inconclusive('watchdog fired (%s, %s) but the threads were not all asleep' % (name, label), counters=counters, sets=sets)
    c = crashmod.classify(rr)
    if c is not None:
        return violated('c20:crash:' + c['signature'], 'crash under schedule %s of %s: %s' % (label, name, c['detail']), counters=counters, sets=sets,
                        extra={'trace': r['trace'][-20:]})
    if r['rc'] != 0:
        return violated('c20:exit:%d' % r['rc'], 'exit status %d under schedule %s of %s: %s' % (r['rc'], label, name, r['err'][:200]), counters=counters, sets=sets)
    prob, summary = check_trace(name, r['trace'])
    if prob is not None:
        return violated('c20:' + prob[0], prob[1] + ' [%s, schedule %s]' % (name, label), counters=counters, sets=sets,
                        extra={'trace': r['trace'][-30:]})
    if reference_out is not None and r['out'] != reference_out:
        return violated('c20:behaviour-differs', 'stdout under schedule %s of %s differs from the reference schedule' % (label, name),
                        reference_out[:300].decode('utf-8', 'replace'), r['out'][:300].decode('utf-8', 'replace'), counters=counters, sets=sets)
    counters['queries_checked'] = summary['queries']
    return held(sig='%s|%s' % (name, label), nontrivial=True, counters=counters, sets=sets,
                sample={'scenario': name, 'schedule': label, 'trace_tail': r['trace'][-6:]})


def expected_behaviour(name, out):
    """The rendering must be the one the scenario's calling process implies."""
    text = out.decode('utf-8', 'replace')
    if name in ('stdin/git-show-file',):
        return '\x1b[' in text, 'git show REV:file output must be syntax-highlighted'
    if name == 'stdin/none':
        return text == RUST_CODE, 'without a calling process plain text must pass through unchanged'
    if name == 'stdin/git-grep' or name == 'stdin/rg':
        return '\x1b[' in text and 'src/main.rs' in text, 'grep output must be rendered as grep output'
    if name.startswith('known/rg') or name.startswith('known/git-grep'):
        return 'src/main.rs' in text and '\x1b[' in text, 'grep output must be rendered as grep output'
    if name.startswith('known/git-blame') or name == 'stdin/git-blame':
        return 'abcd1234' in text or 'Ann' in text, 'blame output must be rendered as blame output'
    if 'word-diff' in name:
        lines = term.strip_escapes(text).split('\n')
        ok = 'same [-old-]{+new+} words' in lines and ' unchanged' in lines
        return ok, 'word-diff lines must be shown as they are (first column kept, no line-number gutter)'
    if name == 'known/git-show-file-vs-git-grep':
        return '\x1b[' in text, 'git show REV:file output must be syntax-highlighted'
    return True, ''


def run_item(item):
    kind = item[0]
    name = item[1]
    outs = []
    if kind == 'forced':
        # reference run: background thread first
        ref = run_scenario(name, sched=reference_schedule(name))
        o = evaluate(name, ref, 'reference(B first)')
        outs.append(o)
        if o['status'] != 'held':
            return outs
        ok, why = expected_behaviour(name, ref['out'])
        if not ok:
            outs.append(violated('c20:wrong-behaviour:' + name, why, None, ref['out'][:300].decode('utf-8', 'replace'), sets={'scenarios': [name]}))
            return outs
        nq = sum(1 for l in ref['trace'] if l.startswith('query') and ' -> ' in l)
        for label, sched in schedules_for(name, nq):
            if sched in ('HOLD', 'HOLD-LONG'):
                r = run_scenario(name, hold=1.5 if sched == 'HOLD-LONG' else True)
                o = evaluate(name, r, label, ref['out'])
                if r['hold_released'] == 'gave-up-waiting' and o['status'] == 'held':
                    o = violated('c20:query-gave-up', 'a query stopped waiting before the background determination had published its result (%s, schedule %s)' % (name, label),
                                 sets={'scenarios': [name]}, extra={'trace': r['trace'][-20:]})
                elif o['status'] == 'held' and r['hold_released'] != 'waiting':
                    o = inconclusive('the state "query 1 waits before the background store" was not reached (%s)' % name,
                                     sets={'scenarios': [name]})
                elif o['status'] == 'held':
                    # confirm from the trace that query 1 passed its gate before the background store
                    tr = r['trace']
                    iq = next((i for i, l in enumerate(tr) if l == 'gate query1:before_lock passed'), None)
                    ib = next((i for i, l in enumerate(tr) if l.startswith('store bg')), None)
                    if iq is None or ib is None or iq > ib:
                        o = inconclusive('schedule not realised (%s, %s)' % (name, label))
            else:
                r = run_scenario(name, sched=sched)
                o = evaluate(name, r, label, ref['out'])
                if o['status'] == 'held':
                    passed = [g for g in gate_order(r['trace']) if g in sched]
                    want = [g for g in sched if g in passed]
                    if passed != want:
                        o = inconclusive('schedule not realised: gates passed in order %s, wanted %s' % (passed, sched))
            outs.append(o)
        return outs
    if kind == 'syncdelay':
        ref = _reference(name)
        sd = SYNC_DELAYS[item[2]]
        label = 'syncdelay(%s,%d,%d)' % sd
        r = run_scenario(name, syncdelay=sd)
        o = evaluate(name, r, label + '#%d' % item[3], ref)
        if o['status'] == 'held' and not r.get('sync_delays'):
            o = inconclusive('the shim saw no wake-all of thread %s (%s)' % (sd[0], name), sets={'scenarios': [name]})
        elif o['status'] == 'held':
            o['counters']['sync_delays'] = r['sync_delays']
        return [o]
    if kind == 'threadfail':
        nth = item[2]
        r = run_scenario(name, threadfail=nth, timeout=10.0)
        label = 'threadfail(%d)' % nth
        sets = {'scenarios': [name], 'schedules': ['%s:%s' % (name, label)]}
        if r['timed_out'] or r.get('no_termination'):
            return [violated('c20:deadlock:' + label if r['deadlock'] else 'c20:no-termination:' + label,
                             'scenario %s with the %s pthread_create refused (EAGAIN): delta did not terminate (%s)'
                             % (name, 'first' if nth == 1 else 'second', 'all threads asleep in futex' if r['deadlock'] else 'threads busy'),
                             'termination', 'still running after %s s' % (40 if r.get('retried') else 10), sets=sets,
                             extra={'stderr': r['err'][-300:].decode('utf-8', 'replace'), 'trace': r['trace'][-10:]})]
        if not r.get('sync_delays'):
            return [inconclusive('no pthread_create call number %d in scenario %s' % (nth, name), sets={'scenarios': [name]})]
        sets['outcome_when_a_thread_cannot_start'] = ['exit %s%s' % (r['rc'], ' (panic message)' if b'panicked' in r['err'] else '')]
        return [held(sig='%s|%s|%s' % (name, label, r['rc']), nontrivial=True, counters={'thread_start_refusals': r['sync_delays']}, sets=sets)]
    if kind in ('jitter', 'unforced', 'tsan'):
        ref = _reference(name)
        variant = 'tsan' if kind == 'tsan' else 'hooks'
        # the bound of the jitter sleeps varies over three orders of magnitude, so that either thread can be the slow one
        jmax = [300, 3000, 30000, 120000][item[2] % 4] if kind != 'unforced' else None
        r = run_scenario(name, jitter=item[2] if kind != 'unforced' else None, variant=variant, timeout=60 if variant == 'tsan' else 20, jitter_max_us=jmax)
        if variant == 'tsan':
            err = r['err'].decode('utf-8', 'replace')
            if 'ThreadSanitizer' in err or r['rc'] == 66:
                first = [l for l in err.splitlines() if 'WARNING: ThreadSanitizer' in l]
                return [violated('c20:tsan:' + (first[0][:80] if first else 'report'), 'ThreadSanitizer report in scenario %s: %s' % (name, err[:600]),
                                 sets={'scenarios': [name]})]
        o = evaluate(name, r, '%s#%s' % (kind, item[2] if kind != 'unforced' else item[2] % 4), ref)
        if o['status'] == 'held':
            # distinct interleavings: order of the store/query events
            order = tuple(l.split(' now=')[0].split(' -> ')[0] for l in r['trace'] if l.startswith(('store', 'query')))
            o['sets']['observed_event_orders'] = ['%s:%s' % (name, '>'.join(order))]
            o['sig'] = '%s|%s|%s' % (name, kind, '>'.join(order))
        return [o]
    raise ValueError(kind)


_REF = {}


def _reference(name):
    if name not in _REF:
        ref = run_scenario(name, sched=reference_schedule(name))
        _REF[name] = ref['out']
    return _REF[name]


def floors(ctx, agg):
    p = []
    sch = agg.sets.get('schedules', set())
    forced = [s for s in sch if '#' not in s and 'reference' not in s]
    if len(forced) < 25:
        p.append('fewer than 30 forced schedules realised (%d)' % len(forced))
    if len(agg.sets.get('scenarios', ())) < len(SCENARIOS):
        p.append('not every scenario ran')
    if len([s for s in sch if 'syncdelay' in s]) < 40:
        p.append('fewer than 40 runs with delays injected at a wake-all were realised')
    if not any('Q1-waits-then-B' in s for s in sch):
        p.append('the "query waits first" schedule was never realised')
    return p
