"""C02 - --color-only is a line-for-line, text-preserving filter (git add -p contract)."""
from .. import corpus, engine, gen, gitrepo, runner, term
from ..engine import held, inconclusive, violated, crash_outcome

ID = 'C02'
LEVEL = 'exploration'
RULE = ('inputs git can hand to interactive.diffFilter or a pager (real git diff/show/log -p --stat, coloured and plain; '
        'synthetic sections of every kind; merge diffs; submodule lines; CRLF; no trailing newline) x option sets containing '
        '--color-only plus random other options given on the command line and/or through a generated gitconfig; line law '
        '(one output line per input line) checked unconditionally, text law (visible text unchanged) on every line not covered '
        'by one of the four stated exemptions; distinct = (input kind, option classes, config source); non-trivial = input has '
        '>= 1 hunk line')
ASSUMPTIONS = ['visible text = text left after removing escape sequences with the independent terminal model']
CHUNK = 6


def plan(ctx):
    items = []
    for i in range(ctx.n(6000, 100000)):
        items.append(('gen', engine.stable_hash((ctx.seed, 'c02', i))))
    for i in range(ctx.n(500, 8000)):
        items.append(('real', engine.stable_hash((ctx.seed, 'c02r', i))))
    for i in range(ctx.n(40, 600)):
        items.append(('paced', engine.stable_hash((ctx.seed, 'c02p', i))))
    return items


STYLE_OPTS = ['--commit-style', '--file-style', '--hunk-header-style']


def gen_config(rng):
    """Returns (cli_opts, gitconfig_text or None, classes, exempt) where exempt is a dict of active exemptions."""
    cli = {'--paging': 'never', '--color-only': True}
    cfg_main = []
    cfg_feat = {}
    cls = []
    exempt = {'gutter': False, 'tabs': None, 'omit': set(), 'markers_removed': False, 'restyled': set()}

    def put(name, value, p_cli=0.5):
        """set option either on CLI or in [delta] section of gitconfig"""
        if rng.random() < p_cli:
            cli['--' + name] = value
            return 'cli'
        cfg_main.append((name, 'true' if value is True else str(value)))
        return 'gitconfig'
    srcs = set()
    if rng.random() < 0.35:
        srcs.add(put('side-by-side', True))
        cls.append('side-by-side')
    if rng.random() < 0.3:
        srcs.add(put('line-numbers', True))
        cls.append('line-numbers')
        exempt['gutter'] = True
    if rng.random() < 0.2:
        srcs.add(put('navigate', True))
        cls.append('navigate')
    if rng.random() < 0.2:
        srcs.add(put('hyperlinks', True))
        cls.append('hyperlinks')
    r = rng.random()
    if r < 0.12:
        if rng.random() < 0.4:
            # the emulation preset named as a feature instead of switched on by its flag
            if rng.random() < 0.5:
                cli['--features'] = 'diff-so-fancy'
                srcs.add('cli')
            else:
                cfg_main.append(('features', 'diff-so-fancy'))
                srcs.add('gitconfig')
            cls.append('diff-so-fancy-named')
        else:
            srcs.add(put('diff-so-fancy', True))
        cls.append('diff-so-fancy')
    elif r < 0.24:
        srcs.add(put('diff-highlight', True))
        cls.append('diff-highlight')
    elif r < 0.3:
        srcs.add(put('raw', True))
        cls.append('raw')
    if rng.random() < 0.3:
        # decoration styles (must be neutralised by color-only)
        for name in ('commit-decoration-style', 'file-decoration-style', 'hunk-header-decoration-style'):
            if rng.random() < 0.7:
                srcs.add(put(name, rng.choice(['box', 'ul', 'ol', 'blue box ul', 'bold yellow ul ol'])))
        cls.append('decorations')
    if rng.random() < 0.3:
        for name in ('commit-style', 'file-style', 'hunk-header-style'):
            if rng.random() < 0.6:
                v = rng.choice(['omit', 'bold yellow', 'raw', 'syntax', 'blue ul', 'blue box', 'yellow underline', 'bold overline', 'raw box'] +
                               (['file line-number syntax'] if name == 'hunk-header-style' else []))
                srcs.add(put(name, v))
                if v == 'omit':
                    exempt['omit'].add(name)
                elif v != 'raw':
                    # an explicit non-raw header style overrides the mode's "raw header styles" preset: the
                    # text guarantee for these header lines is given up with it (line law still applies)
                    exempt['restyled'].add(name)
        cls.append('header-styles')
    if rng.random() < 0.15:
        t = rng.choice([1, 2, 4, 8])
        srcs.add(put('tabs', t))
        exempt['tabs'] = t
        cls.append('tabs')
    if rng.random() < 0.1:
        cfg_main.append(('keep-plus-minus-markers', 'false'))
        exempt['markers_removed'] = True
        srcs.add('gitconfig')
        cls.append('markers-off')
    if rng.random() < 0.2:
        srcs.add(put('width', rng.choice([40, 80, 100])))
    if rng.random() < 0.2:
        srcs.add(put('syntax-theme', rng.choice(gen.THEMES_DARK + ['none'])))
    if rng.random() < 0.15:
        srcs.add(put('line-numbers-left-format', '{nm:>3}|'))
    if rng.random() < 0.15:
        srcs.add(put('file-modified-label', 'M:'))
        srcs.add(put('hunk-label', 'H'))
    if rng.random() < 0.15:
        srcs.add(put('relative-paths', True))
    if rng.random() < 0.15:
        # a custom feature carrying some of it
        cfg_feat['myfeat'] = [('file-decoration-style', 'blue ul'),
                              ('hunk-header-decoration-style', 'cyan box ul'), ('commit-decoration-style', 'bold yellow box ul')]
        cfg_main.append(('features', 'myfeat'))
        srcs.add('gitconfig')
        cls.append('custom-feature')
    text = None
    if cfg_main or cfg_feat:
        text = '[delta]\n' + ''.join('    %s = %s\n' % (k, v) for k, v in cfg_main)
        for f, kv in cfg_feat.items():
            text += '[delta "%s"]\n' % f + ''.join('    %s = %s\n' % (k, v) for k, v in kv)
        text += '[interactive]\n    diffFilter = delta --color-only\n'
    cls.append('src:' + '+'.join(sorted(srcs)) if srcs else 'src:none')
    return cli, text, cls, exempt


def gen_input(rng, kind_hint=None):
    """Returns (kind, list of byte lines, roles list or None, trailing_newline)"""
    k = rng.randrange(8)
    if k <= 2:
        d = gen.gen_diff(rng, maxlen=60)
        rl = d.role_lines()
        lines = [l for _, l in rl]
        roles = [r for r, _ in rl]
        if rng.random() < 0.4:
            lines = corpus.git_colorize(lines)
            kind = 'synthetic-coloured'
        else:
            kind = 'synthetic'
        if rng.random() < 0.1:
            lines = [l + '\r' if r == 'hunk' else l for l, r in zip(lines, roles)]
            kind += '-crlf'
        return kind, [l.encode() for l in lines], roles, rng.random() < 0.9
    if k == 3:
        rl = []
        ncommits = rng.choice([1, 1, 2, 3])
        tformat = ncommits > 1 and rng.random() < 0.5
        for ci in range(ncommits):
            head, _h = corpus.commit_header(rng)
            if tformat:
                # git log -p --format=...: no empty line between the end of a diff and the next 'commit' line, which then
                # arrives while removed/added lines are still buffered
                head = [l for l in head if l.strip()][:2]
            d = gen.gen_diff(rng, maxlen=60, nsections=rng.randint(1, 2))
            stat = corpus.diffstat_lines(rng, [s.new_path for s in d.sections]) if rng.random() < 0.6 and not tformat else []
            rl += [('commit' if l.startswith('commit ') else 'meta', l) for l in head + stat] + d.role_lines()
            if not tformat and ci < ncommits - 1:
                rl.append(('meta', ''))
        return 'log-p' + ('-tformat' if tformat else ''), [l.encode() for _, l in rl], [r for r, _ in rl], True
    if k == 4:
        ls, _m, _p = corpus.gen_combined(rng, conflict=rng.random() < 0.5)
        roles = ['header'] * 4 + ['hunkheader'] + ['hunk'] * (len(ls) - 5)
        return 'combined', [l.encode() for l in ls], roles, True
    if k == 5:
        lines = ['diff --git a/sub b/sub', 'index 1111111..2222222 160000', '--- a/sub', '+++ b/sub', '@@ -1 +1 @@',
                 '-Subproject commit ' + 'a' * 40, '+Subproject commit ' + 'b' * 40,
                 'Submodule sub2 1234567..89abcde:', '  > commit msg', '  < other']
        roles = ['header'] * 4 + ['hunkheader', 'hunk', 'hunk', 'header', 'meta', 'meta']
        return 'submodule', [l.encode() for l in lines], roles, True
    if k == 6:
        d = gen.gen_diff(rng, fmt=rng.choice(['plain', 'plainr']), maxlen=50)
        for s_ in d.sections:
            for h in s_.hunks:
                # the documented ambiguity of plain diff -u: '+++ ' content looks like a header
                h.lines = [(kk, t if not (kk == '+' and t.startswith('++ ')) else 'pp' + t[2:]) for kk, t in h.lines]
        strip = rng.random() < 0.35
        if strip:
            # empty unchanged lines without their blank (diff -u --suppress-blank-empty, white space stripped on the way)
            for s_ in d.sections:
                for h in s_.hunks:
                    h.lines = [(kk, '' if kk == ' ' and rng.random() < 0.5 else t) for kk, t in h.lines]
        rl = d.role_lines()
        if strip:
            rl = [(r, '' if (r == 'hunk' and l == ' ') else l) for r, l in rl]
        return 'plain-diff' + ('-stripped-blanks' if strip else ''), [l.encode() for _, l in rl], [r for r, _ in rl], True
    d = gen.gen_diff(rng, kinds=['binary', 'mode_only', 'renamed', 'copied', 'empty_added', 'binary_added', 'deleted', 'added'])
    rl = d.role_lines()
    return 'no-hunk-sections', [l.encode() for _, l in rl], [r for r, _ in rl], True


def run_paced(rng):
    """Line-by-line feeding: at no point may more output lines exist than input lines were given (git add -p reads
    the filter's output line by line against its own hunks), and at EOF the counts are equal."""
    from . import c11
    cli, cfgtext, cls, exempt = gen_config(rng)
    kind, lines, roles, trailing = gen_input(rng)
    args = gen.to_args(cli)
    if cfgtext is not None:
        args = ['--config', runner.write_file('c02p.gitconfig', cfgtext)] + args
    p = c11.Paced(args)
    if not p.pid:
        p.finish()
        return inconclusive('could not find the delta process')
    sets = {'input_kinds': [kind + ':paced'], 'option_classes': cls}
    p.quiesce()
    for k, l in enumerate(lines):
        p.feed(l)
        if not p.quiesce():
            p.finish()
            return inconclusive('quiescence not reached', sets=sets)
        n_out = p.written.count(b'\n')
        if n_out > k + 1:
            p.finish()
            return violated('c02:paced:output-ahead-of-input', 'after %d input lines delta had already written %d lines' % (k + 1, n_out), k + 1, n_out,
                            sets=sets, extra={'args': args, 'input': [x.decode('utf-8', 'replace') for x in lines[:k + 1]]})
    rc, err, _ = p.finish()
    n_out = p.written.count(b'\n')
    if rc != 0 or n_out != len(lines):
        return violated('c02:paced:line-count', 'line-by-line fed run: %d output lines for %d input lines (rc %d)' % (n_out, len(lines), rc), len(lines), n_out,
                        sets=sets, extra={'args': args})
    return held(sig=('paced', kind, tuple(sorted(cls)), len(lines)), nontrivial=True, counters={'paced_points': len(lines), 'input_lines': len(lines)},
                sets=sets)


def run_item(item):
    kind0, seed = item
    rng = engine.item_rng(seed)
    if kind0 == 'paced':
        return run_paced(rng)
    cli, cfgtext, cls, exempt = gen_config(rng)
    roles = None
    if kind0 == 'real':
        repo = gitrepo.Repo(rng)
        try:
            repo.seed_files()
            repo.random_edits()
            color = '--color=always' if rng.random() < 0.5 else '--color=never'
            which = rng.choice(['diff', 'show', 'log-p-stat', 'diff-cached-stat'])
            if which == 'diff':
                repo.git('add', '-A', '-N')
                out = repo.git('diff', color, *rng.choice([[], ['-M'], ['-U1']]))
            elif which == 'show':
                repo.commit('second\n\nbody')
                out = repo.git('show', color, '-M')
            elif which == 'log-p-stat':
                repo.commit('second\n\nbody')
                out = repo.git('log', '-p', '--stat', color, '-M')
            else:
                repo.git('add', '-A')
                out = repo.git('diff', '--cached', '--stat', '-p', color)
        finally:
            repo.remove()
        if not out.strip():
            return inconclusive('empty git output')
        kind = 'real-' + which + ('-coloured' if color.endswith('always') else '')
        lines = out.split(b'\n')
        trailing = True
        if lines and lines[-1] == b'':
            lines = lines[:-1]
        roles = gen.roles_from_unified([term.strip_escapes(l.decode('utf-8', 'replace')) for l in lines])
    else:
        kind, lines, roles, trailing = gen_input(rng)
    if rng.random() < 0.15 and len(lines) > 2:
        # the diff is cut at a line boundary (git diff | head -n N): still one output line per input line
        cut = rng.randint(1, len(lines) - 1)
        lines, roles = lines[:cut], roles[:cut]
        cls = cls + ['truncated-input']
    data = b'\n'.join(lines) + (b'\n' if trailing else b'')
    args = gen.to_args(cli)
    if cfgtext is not None:
        path = runner.write_file('c02.gitconfig', cfgtext)
        args = ['--config', path] + args
    res = runner.run_delta(args, data)
    c = crash_outcome(res, ID)
    if c is not None:
        return c
    if res.rc != 0:
        return inconclusive('exit %d: %s' % (res.rc, res.err[:120]))
    out_lines = res.out.split(b'\n')
    if out_lines and out_lines[-1] == b'':
        out_lines = out_lines[:-1]
    counters = {'input_lines': len(lines), 'text_lines_compared': 0, 'exempt_lines': 0}
    sets = {'input_kinds': [kind], 'option_classes': cls}
    if len(out_lines) != len(lines):
        # locate the first misaligned line for the witness
        k = 0
        while k < min(len(out_lines), len(lines)) and \
                term.strip_escapes(out_lines[k].decode('utf-8', 'replace')).rstrip() == \
                term.strip_escapes(lines[k].decode('utf-8', 'replace')).rstrip('\r').rstrip():
            k += 1
        culprit = term.strip_escapes(lines[k].decode('utf-8', 'replace'))[:40] if k < len(lines) else ''
        tag = 'commit' if culprit.startswith('commit ') else ('hunk-header' if culprit.startswith('@@') else
                                                              ('diff-header' if culprit.startswith(('diff ', '--- ', '+++ ', 'index ')) else 'other'))
        omitted = ','.join(sorted(exempt['omit']))
        return violated('c02:line-count:%s:%s' % (tag, omitted or 'no-omit'),
                        '--color-only produced %d output lines for %d input lines (first misalignment at input line %d: %r)'
                        % (len(out_lines), len(lines), k + 1, culprit), len(lines), len(out_lines), run=res,
                        counters=counters, sets=sets)
    # text law
    for i, (il, ol) in enumerate(zip(lines, out_lines)):
        iv = term.strip_escapes(il.decode('utf-8', 'replace'))
        ov = term.strip_escapes(ol.decode('utf-8', 'replace'))
        if iv.endswith('\r'):
            iv = iv[:-1]
        role = roles[i] if roles else None
        ex = False
        if exempt['tabs'] is not None and '\t' in iv:
            ex = True
        weak = None
        if exempt['gutter'] or exempt['markers_removed']:
            # hunk lines get a gutter / lose the marker: only in hunks; headers must still be intact
            if role in ('hunk', 'note') or (role is None and iv[:1] in ('+', '-', ' ', '\\') and not iv.startswith(('+++ ', '--- '))):
                ex = True
                if role == 'hunk' and exempt['tabs'] is None or '\t' not in iv:
                    # the specified relation instead of none: the text (without its marker when markers are removed) closes the row
                    weak = iv[1:] if exempt['markers_removed'] else iv
        if exempt['omit']:
            if '--commit-style' in ['--' + o for o in exempt['omit']] and iv.startswith('commit '):
                ex = True
            if 'hunk-header-style' in exempt['omit'] and iv.startswith('@@'):
                ex = True
            if 'file-style' in exempt['omit'] and (role == 'header' or iv.startswith(('diff ', '--- ', '+++ ', 'index ', 'new file', 'deleted file', 'old mode', 'new mode', 'rename ', 'copy ', 'similarity', 'Binary', 'Submodule'))):
                ex = True
            if 'commit-style' in exempt['omit'] and iv.startswith('commit '):
                ex = True
        if exempt['restyled']:
            if 'hunk-header-style' in exempt['restyled'] and iv.startswith('@@'):
                ex = True
            if 'commit-style' in exempt['restyled'] and iv.startswith('commit '):
                ex = True
            if 'file-style' in exempt['restyled'] and (role == 'header' or iv.startswith(('diff ', '--- ', '+++ ', 'Binary', 'Submodule', 'rename ', 'copy ', 'old mode', 'new mode', 'new file', 'deleted file'))):
                ex = True
        if ex:
            counters['exempt_lines'] += 1
            if weak is not None and role == 'hunk' and not (ov.rstrip(' ').endswith(weak.rstrip(' '))):
                return violated('c02:text:hunk-with-gutter', 'output line %d does not end with the text of input line %d (a gutter may precede it%s)'
                                % (i + 1, i + 1, ', the marker is removed' if exempt['markers_removed'] else ''), weak[:200], ov[:200],
                                run=res, counters=counters, sets=sets)
            if weak is not None and role == 'hunk':
                counters['gutter_lines_compared'] = counters.get('gutter_lines_compared', 0) + 1
            continue
        if ov.rstrip(' ') != iv.rstrip(' ') and ov != iv:
            return violated('c02:text:%s' % (role or 'line'),
                            'output line %d does not show the visible text of input line %d unchanged' % (i + 1, i + 1),
                            iv[:200], ov[:200], run=res, counters=counters, sets=sets)
        counters['text_lines_compared'] += 1
    return held(sig=(kind, tuple(sorted(cls))), nontrivial=any(l[:1] in (b'+', b'-') or b'\x1b[3' in l[:6] for l in lines),
                counters=counters, sets=sets,
                sample={'kind': kind, 'args': args[-8:], 'gitconfig': cfgtext, 'lines': len(lines)})


def floors(ctx, agg):
    p = []
    if agg.counters.get('text_lines_compared', 0) < 20000:
        p.append('fewer than 20000 lines compared for the text law')
    if len(agg.sets.get('input_kinds', ())) < 10:
        p.append('fewer than 10 input kinds')
    return p
