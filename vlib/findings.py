"""Known findings: committed file, read-only at run time.  Exact match on (property, key)."""
import json
import os

_PATH = os.path.join(os.path.dirname(os.path.dirname(os.path.abspath(__file__))), 'known_findings.json')
_CACHE = None


def _load():
    global _CACHE
    if _CACHE is None:
        try:
            with open(_PATH) as f:
                _CACHE = json.load(f)
        except OSError:
            _CACHE = {'findings': []}
    return _CACHE


def lookup(prop_id, key):
    """Return the *open* finding entry matching (property, key), or None.  Entries with status
    'fixed' suppress nothing."""
    for f in _load().get('findings', []):
        if f.get('status') == 'open' and f.get('property') == prop_id and f.get('key') == key:
            return f
    return None
