"""Independent terminal model: decodes a byte stream written for a terminal into rows of
cells (text, width, fg, bg, attrs, link).  Shares no code or tables with delta."""
import unicodedata

DEFAULT = None

ATTR_NAMES = {1: 'bold', 2: 'dim', 3: 'italic', 4: 'ul', 5: 'blink', 6: 'blink',
              7: 'reverse', 8: 'hidden', 9: 'strike', 53: 'ol'}
ATTR_OFF = {21: ('bold',), 22: ('bold', 'dim'), 23: ('italic',), 24: ('ul',), 25: ('blink',),
            27: ('reverse',), 28: ('hidden',), 29: ('strike',), 55: ('ol',)}


def char_width(ch):
    o = ord(ch)
    if o == 0:
        return 0
    if o < 32 or 0x7f <= o < 0xa0:
        return 0
    cat = unicodedata.category(ch)
    if cat in ('Mn', 'Me', 'Cf'):
        return 0
    if 0x1160 <= o <= 0x11ff:  # hangul jungseong/jongseong: zero width
        return 0
    if unicodedata.east_asian_width(ch) in ('W', 'F'):
        return 2
    return 1


def text_width(s):
    return sum(char_width(c) for c in s)


class Cell(object):
    __slots__ = ('ch', 'w', 'fg', 'bg', 'attrs', 'link')

    def __init__(self, ch, w, fg, bg, attrs, link):
        self.ch = ch
        self.w = w
        self.fg = fg
        self.bg = bg
        self.attrs = attrs
        self.link = link

    def style(self):
        return (self.fg, self.bg, self.attrs)

    def __repr__(self):
        return 'Cell(%r,fg=%r,bg=%r,%s%s)' % (self.ch, self.fg, self.bg, ','.join(sorted(self.attrs)),
                                              ',link' if self.link else '')


class Row(object):
    __slots__ = ('cells', 'end_sgr_default', 'end_link', 'malformed', 'fills', 'raw', 'has_cr',
                 'links', 'sgr_seqs', 'other_seqs')

    def __init__(self):
        self.cells = []
        self.end_sgr_default = True
        self.end_link = None
        self.malformed = []
        self.fills = []      # (col, mode, (fg,bg,attrs))
        self.raw = b''
        self.has_cr = False
        self.links = []      # (uri, text) for every closed or row-terminated link
        self.sgr_seqs = 0
        self.other_seqs = []   # control sequences other than SGR / erase-in-line / OSC 8, verbatim

    def text(self):
        return ''.join(c.ch for c in self.cells)

    def width(self):
        return sum(c.w for c in self.cells)


def _norm_color(kind, val):
    # kind: 'idx' or 'rgb'
    return (kind, val)


class SGR(object):
    def __init__(self):
        self.fg = DEFAULT
        self.bg = DEFAULT
        self.attrs = frozenset()

    def is_default(self):
        return self.fg is None and self.bg is None and not self.attrs

    def snapshot(self):
        return (self.fg, self.bg, self.attrs)

    def apply(self, params):
        """params: list of lists (colon sub-params kept inside an item). Returns False if malformed."""
        ok = True
        if not params:
            params = [[0]]
        i = 0
        attrs = set(self.attrs)
        while i < len(params):
            p = params[i]
            n = p[0] if p and p[0] is not None else 0
            if len(p) > 1 and n in (38, 48):
                # colon form 38:5:n or 38:2:r:g:b or 38:2::r:g:b
                sub = [x for x in p[1:]]
                col = None
                if sub and sub[0] == 5 and len(sub) >= 2:
                    col = ('idx', sub[1] or 0)
                elif sub and sub[0] == 2 and len(sub) >= 4:
                    r, g, b = sub[-3], sub[-2], sub[-1]
                    col = ('rgb', (r or 0, g or 0, b or 0))
                else:
                    ok = False
                if col is not None:
                    if n == 38:
                        self.fg = col
                    else:
                        self.bg = col
                i += 1
                continue
            if n == 0:
                self.fg = None
                self.bg = None
                attrs = set()
            elif n in ATTR_NAMES:
                attrs.add(ATTR_NAMES[n])
            elif n in ATTR_OFF:
                for a in ATTR_OFF[n]:
                    attrs.discard(a)
            elif 30 <= n <= 37:
                self.fg = ('idx', n - 30)
            elif n == 39:
                self.fg = None
            elif 40 <= n <= 47:
                self.bg = ('idx', n - 40)
            elif n == 49:
                self.bg = None
            elif 90 <= n <= 97:
                self.fg = ('idx', n - 90 + 8)
            elif 100 <= n <= 107:
                self.bg = ('idx', n - 100 + 8)
            elif n in (38, 48):
                # semicolon form
                def val(j):
                    if j < len(params) and params[j] and params[j][0] is not None:
                        return params[j][0]
                    return 0
                if i + 1 < len(params) and val(i + 1) == 5 and i + 2 < len(params):
                    col = ('idx', val(i + 2))
                    i += 2
                elif i + 1 < len(params) and val(i + 1) == 2 and i + 4 < len(params):
                    col = ('rgb', (val(i + 2), val(i + 3), val(i + 4)))
                    i += 4
                else:
                    ok = False
                    col = None
                    i = len(params)
                if col is not None:
                    if n == 38:
                        self.fg = col
                    else:
                        self.bg = col
            else:
                pass  # unknown SGR parameter: ignored by terminals
            i += 1
        self.attrs = frozenset(attrs)
        return ok


def decode(data, keep_raw=False, merge=True):
    """data: bytes.  Returns list of Row.  Rows are split at LF.  A final row without LF is
    returned too (flag .raw lacks trailing newline)."""
    if isinstance(data, bytes):
        text = data.decode('utf-8', 'replace')
    else:
        text = data
    rows = []
    sgr = SGR()
    link = None
    link_text = []
    row = Row()
    i = 0
    n = len(text)
    line_start = 0
    prev_cell = None
    while i < n:
        ch = text[i]
        if ch == '\n':
            row.end_sgr_default = sgr.is_default()
            row.end_link = link
            if link is not None:
                row.links.append((link, ''.join(link_text)))
                link_text = []
            if keep_raw:
                row.raw = text[line_start:i]
            rows.append(row)
            row = Row()
            prev_cell = None
            i += 1
            line_start = i
            continue
        if ch == '\x1b':
            if i + 1 >= n:
                row.malformed.append('lone ESC at end of stream')
                i += 1
                continue
            c2 = text[i + 1]
            if c2 == '[':
                j = i + 2
                while j < n and ('\x30' <= text[j] <= '\x3f'):
                    j += 1
                k = j
                while k < n and ('\x20' <= text[k] <= '\x2f'):
                    k += 1
                if k >= n or not ('\x40' <= text[k] <= '\x7e'):
                    row.malformed.append('unterminated/split CSI %r' % text[i:min(k + 1, i + 20)])
                    i += 2
                    continue
                ptxt = text[i + 2:j]
                inter = text[j:k]
                final = text[k]
                if final == 'm' and not inter and (not ptxt or ptxt[0] not in '<=>?'):
                    params = []
                    okp = True
                    for item in ptxt.split(';') if ptxt else []:
                        subs = []
                        for s in item.split(':'):
                            if s == '':
                                subs.append(None)
                            elif s.isdigit():
                                subs.append(int(s))
                            else:
                                okp = False
                                subs.append(None)
                        params.append(subs)
                    if not sgr.apply(params) or not okp:
                        row.malformed.append('bad SGR %r' % text[i:k + 1])
                    row.sgr_seqs += 1
                elif final == 'K' and not inter:
                    mode = int(ptxt) if ptxt.isdigit() else 0
                    row.fills.append((row.width(), mode, sgr.snapshot()))
                else:
                    # other CSI: recorded, no effect on the model
                    row.other_seqs.append(text[i:k + 1])
                i = k + 1
                continue
            if c2 == ']':
                # OSC ... BEL | ESC \
                j = i + 2
                end = -1
                endlen = 0
                while j < n:
                    if text[j] == '\x07':
                        end = j
                        endlen = 1
                        break
                    if text[j] == '\x1b' and j + 1 < n and text[j + 1] == '\\':
                        end = j
                        endlen = 2
                        break
                    if text[j] == '\n':
                        break
                    j += 1
                if end < 0:
                    row.malformed.append('unterminated OSC %r' % text[i:i + 30])
                    i += 2
                    continue
                body = text[i + 2:end]
                if any(ord(ch_) < 0x20 or ord(ch_) == 0x7f for ch_ in body):
                    # an ESC (or another control character) inside the string ends / cancels it on a real terminal: one
                    # sequence was written into another
                    row.malformed.append('control character inside OSC %r' % body[:60])
                if body.startswith('8;'):
                    rest = body[2:]
                    semi = rest.find(';')
                    if semi < 0:
                        row.malformed.append('bad OSC 8 %r' % body[:30])
                    else:
                        uri = rest[semi + 1:]
                        if link is not None:
                            row.links.append((link, ''.join(link_text)))
                            link_text = []
                        link = uri if uri != '' else None
                i = end + endlen
                continue
            if '\x40' <= c2 <= '\x5f' or c2 in '78=>c':
                i += 2
                continue
            row.malformed.append('unknown escape %r' % text[i:i + 4])
            i += 2
            continue
        if ch == '\r':
            row.has_cr = True
            i += 1
            continue
        w = char_width(ch)
        # a zero-width character joins the previous cell when it is painted in the same style; at a style boundary
        # (e.g. right after a gutter or a diff marker) it stays a cell of its own, so that text can be read back by style
        if (merge and w == 0 and prev_cell is not None and ch not in '\t' and ord(ch) >= 0x300
                and (prev_cell.fg, prev_cell.bg, prev_cell.attrs, prev_cell.link) == (sgr.fg, sgr.bg, sgr.attrs, link)):
            prev_cell.ch += ch
            if link is not None:
                link_text.append(ch)
        else:
            cell = Cell(ch, 1 if ch == '\t' else w, sgr.fg, sgr.bg, sgr.attrs, link)
            row.cells.append(cell)
            prev_cell = cell
            if link is not None:
                link_text.append(ch)
        i += 1
    if i > line_start or row.cells or row.malformed:
        row.end_sgr_default = sgr.is_default()
        row.end_link = link
        if link is not None:
            row.links.append((link, ''.join(link_text)))
        if keep_raw:
            row.raw = text[line_start:]
        rows.append(row)
    return rows


def strip_escapes(text):
    """Visible text of a string (all CSI/OSC/ESC sequences removed) - independent of delta."""
    return '\n'.join(r.text() for r in decode(text)) if '\n' in text else (decode(text)[0].text() if text else '')


def visible_lines(data):
    return [r.text() for r in decode(data)]


def strip_osc8(b):
    """Remove OSC 8 sequences from bytes."""
    out = bytearray()
    i = 0
    n = len(b)
    while i < n:
        if b[i] == 0x1b and b[i + 1:i + 4] == b']8;':
            j = i + 4
            while j < n:
                if b[j] == 0x07:
                    j += 1
                    break
                if b[j] == 0x1b and j + 1 < n and b[j + 1] == 0x5c:
                    j += 2
                    break
                j += 1
            i = j
            continue
        out.append(b[i])
        i += 1
    return bytes(out)


def color_of(spec):
    """Helper used by oracles: canonical colour for '#rrggbb' or 0..255."""
    if isinstance(spec, int):
        return ('idx', spec)
    if spec.startswith('#'):
        return ('rgb', (int(spec[1:3], 16), int(spec[3:5], 16), int(spec[5:7], 16)))
    raise ValueError(spec)
