"""Reference models of delta's inputs: diffs are generated from a model, so that the oracle
knows what every input line is.  Also option-set generators and the reserved-colour tags."""
import random

# ---------------------------------------------------------------- line contents

WORDS = ['foo', 'bar', 'baz', 'x', 'y1', 'fn', 'let', 'return', 'self', 'value', 'if', 'else', 'for',
         'i', '0', '1', '42', 'None', 'true', 'String', 'vec', 'map', 'key', 'héllo', 'naïve', 'über']
PUNCT = ['(', ')', '{', '}', '[', ']', ';', ',', '.', '=', '==', '->', '::', '+', '-', '*', '/', '<', '>',
         '"', "'", '&', '|', '!', '#', ':', '%']
CJK = ['日本', '語', '中文', '漢字', 'かな', 'カナ', '한']
COMBINING = ['é', 'ö', 'á']
LEADING_EXTENDERS = ['\u0301', '\u0308', '\ufe0f', '\u200d']
# letters whose lower-case form has another UTF-8 length (byte offsets computed on a case-folded copy go wrong)
CASE_LENGTH = ['\u0130stanbul', '\u1e9e', '\u212a', '\u212b', '\u2126']
EMOJI = ['😀', '🎉']
MARKERLIKE = ['-- x', '--- x', '- y', '++ x', '+++ x', '+ y', '@@ x @@', '@@ -1,2 +1,2 @@', '\\ No newline',
              '\\', 'diff x', 'diff --git a/q b/q', 'commit abc', 'index 123..456', '--', '++', '@@',
              'Binary files a and b differ', 'rename from x', 'new file mode 100644', 'Submodule x 123..456',
              '<<<<<<< HEAD', '=======', '>>>>>>> br', '||||||| base', '{', '{"a":1}']


def rand_text(rng, maxlen=40, unicode_ok=True, tabs_ok=True, allow_empty=True):
    r = rng.random()
    if allow_empty and r < 0.06:
        return ''
    if r < 0.10:
        return ' ' * rng.randint(1, 4)
    if r < 0.17:
        return rng.choice(MARKERLIKE)
    if r < 0.20 and tabs_ok:
        return '\t' * rng.randint(1, 2) + rng.choice(WORDS)
    parts = []
    n = rng.randint(1, 9)
    if rng.random() < 0.3:
        parts.append(' ' * rng.choice([1, 2, 4, 8]))
    elif tabs_ok and rng.random() < 0.12:
        parts.append('\t')
    for _ in range(n):
        q = rng.random()
        if q < 0.55:
            parts.append(rng.choice(WORDS))
        elif q < 0.75:
            parts.append(rng.choice(PUNCT))
        elif q < 0.80 and unicode_ok:
            parts.append(rng.choice(CJK))
        elif q < 0.83 and unicode_ok:
            parts.append(rng.choice(COMBINING))
        elif q < 0.85 and unicode_ok:
            parts.append(rng.choice(EMOJI))
        elif q < 0.86 and unicode_ok:
            parts.append(rng.choice(CASE_LENGTH))
        elif q < 0.88 and tabs_ok:
            parts.append('\t')
        else:
            parts.append(' ')
        if rng.random() < 0.5:
            parts.append(' ')
    s = ''.join(parts)
    if unicode_ok and rng.random() < 0.02:
        # text that begins with a grapheme-extending character (it would join the diff marker into one cluster)
        s = rng.choice(LEADING_EXTENDERS) + s.lstrip(' ')
    if rng.random() < 0.08:
        s += ' ' * rng.randint(1, 3)
    if rng.random() < 0.03 and tabs_ok:
        s += '\t'
    return s[:maxlen] if maxlen else s


def mutate_text(rng, s):
    """A line similar to s (so that delta will pair them)."""
    if not s:
        return rng.choice(WORDS)
    toks = s.split(' ')
    k = rng.randrange(len(toks))
    op = rng.random()
    if op < 0.5:
        toks[k] = rng.choice(WORDS)
    elif op < 0.75:
        toks.insert(k, rng.choice(WORDS))
    elif len(toks) > 1:
        del toks[k]
    else:
        toks[k] = toks[k] + rng.choice(PUNCT)
    return ' '.join(toks)


# ---------------------------------------------------------------- diff model

class Hunk(object):
    def __init__(self, old_start, new_start, lines, fragment='', omit_counts=False):
        self.old_start = old_start
        self.new_start = new_start
        self.lines = lines  # list of (kind, text) kind in '-', '+', ' ', '\\'
        self.fragment = fragment
        self.omit_counts = omit_counts

    def counts(self):
        o = sum(1 for k, _ in self.lines if k in '- ')
        n = sum(1 for k, _ in self.lines if k in '+ ')
        return o, n

    def header(self):
        o, n = self.counts()
        # git prints start 0 for an empty side
        os_, ns = self.old_start, self.new_start

        def side(s, c):
            if c == 1 and self.omit_counts:
                return '%d' % s
            return '%d,%d' % (s, c)
        h = '@@ -%s +%s @@' % (side(os_, o), side(ns, n))
        if self.fragment:
            h += ' ' + self.fragment
        return h


class Section(object):
    """One file section. kind: modified, added, deleted, renamed, renamed_changed, copied, mode_only,
    mode_changed, binary, binary_added, empty_added"""

    def __init__(self, kind, old_path, new_path, hunks=None, old_mode='100644', new_mode='100644'):
        self.kind = kind
        self.old_path = old_path
        self.new_path = new_path
        self.hunks = hunks or []
        self.old_mode = old_mode
        self.new_mode = new_mode

    def header_lines(self, fmt='git'):
        a, b = self.old_path, self.new_path
        if fmt == 'plain':
            return ['--- %s\t2020-01-01 00:00:00.000000000 +0000' % a,
                    '+++ %s\t2020-01-02 00:00:00.000000000 +0000' % b]
        if fmt == 'plainr':
            return ['diff -ru old/%s new/%s' % (a, b),
                    '--- old/%s\t2020-01-01 00:00:00.000000000 +0000' % a,
                    '+++ new/%s\t2020-01-02 00:00:00.000000000 +0000' % b]
        L = ['diff --git a/%s b/%s' % (a, b)]
        k = self.kind
        idx = 'index 1111111..2222222'
        if k == 'modified':
            L += [idx + ' 100644', '--- a/%s' % a, '+++ b/%s' % b]
        elif k == 'added':
            L += ['new file mode 100644', 'index 0000000..2222222', '--- /dev/null', '+++ b/%s' % b]
        elif k == 'empty_added':
            L += ['new file mode 100644', 'index 0000000..e69de29']
        elif k == 'deleted':
            L += ['deleted file mode 100644', 'index 1111111..0000000', '--- a/%s' % a, '+++ /dev/null']
        elif k == 'renamed':
            L += ['similarity index 100%', 'rename from %s' % a, 'rename to %s' % b]
        elif k == 'renamed_changed':
            L += ['similarity index 90%', 'rename from %s' % a, 'rename to %s' % b, idx + ' 100644',
                  '--- a/%s' % a, '+++ b/%s' % b]
        elif k == 'copied':
            L += ['similarity index 100%', 'copy from %s' % a, 'copy to %s' % b]
        elif k == 'mode_only':
            L += ['old mode %s' % self.old_mode, 'new mode %s' % self.new_mode]
        elif k == 'mode_changed':
            L += ['old mode %s' % self.old_mode, 'new mode %s' % self.new_mode, idx, '--- a/%s' % a, '+++ b/%s' % b]
        elif k == 'binary':
            L += [idx + ' 100644', 'Binary files a/%s and b/%s differ' % (a, b)]
        elif k == 'binary_added':
            L += ['new file mode 100644', 'index 0000000..2222222', 'Binary files /dev/null and b/%s differ' % b]
        else:
            raise ValueError(k)
        return L

    def has_hunks(self):
        return self.kind in ('modified', 'added', 'deleted', 'renamed_changed', 'mode_changed')


class Diff(object):
    def __init__(self, sections, fmt='git'):
        self.sections = sections
        self.fmt = fmt

    def lines(self):
        out = []
        for s in self.sections:
            out += s.header_lines(self.fmt)
            for h in s.hunks:
                out.append(h.header())
                for k, t in h.lines:
                    if k == '\\':
                        out.append('\\ No newline at end of file')
                    else:
                        out.append(k + t)
        return out

    def text(self):
        return '\n'.join(self.lines()) + '\n'

    def role_lines(self):
        """[(role, line)] with role in header / hunkheader / hunk / note."""
        out = []
        for s in self.sections:
            out += [('header', l) for l in s.header_lines(self.fmt)]
            for h in s.hunks:
                out.append(('hunkheader', h.header()))
                for k, t in h.lines:
                    if k == '\\':
                        out.append(('note', '\\ No newline at end of file'))
                    else:
                        out.append(('hunk', k + t))
        return out

    def events(self):
        """Flat list: ('file', si) ('hunk', si, hi) ('line', kind, text, old_no, new_no)."""
        ev = []
        for si, s in enumerate(self.sections):
            ev.append(('file', si))
            for hi, h in enumerate(s.hunks):
                ev.append(('hunk', si, hi))
                o, n = h.old_start, h.new_start
                for k, t in h.lines:
                    if k == '-':
                        ev.append(('line', '-', t, o, None))
                        o += 1
                    elif k == '+':
                        ev.append(('line', '+', t, None, n))
                        n += 1
                    elif k == ' ':
                        ev.append(('line', ' ', t, o, n))
                        o += 1
                        n += 1
                    else:
                        ev.append(('note', '\\ No newline at end of file'))
        return ev


PATH_PARTS = ['src', 'lib', 'a', 'b', 'dir with space', 'tests', 'x-y', 'v1.2', 'ünï']
NAMES = ['main.rs', 'foo.py', 'Makefile', 'README.md', 'a.c', 'b.js', 'file with space.txt', 'x', 'data.json',
         'no_ext', 'über.rs', 'b.go', 'lib.rs', 'util.h', 'index.html', 's.sh']
FRAGMENTS = ['', '', 'fn main() {', 'def f(x):', 'class A:', 'impl Foo for Bar {', 'int main(void)', 'x = 1',
             'fn a() -> @@ b', '  indented', '日本 語', 'def lookup(t, key, default=-1):', 'case -12:', 'tbl[N+3] = x-7,+9',
             '@@ -5,6 +7,8 @@ nested']


def rand_path(rng, simple=False):
    if simple:
        return rng.choice(['a.rs', 'b.py', 'src/main.rs', 'lib/util.c', 'x/y/z.js', 'Makefile', 'doc.md'])
    n = rng.choice([0, 0, 1, 1, 2])
    parts = [rng.choice(PATH_PARTS) for _ in range(n)] + [rng.choice(NAMES)]
    return '/'.join(parts)


def gen_hunk_lines(rng, maxlines=12, maxlen=40, unicode_ok=True, tabs_ok=True, shape=None, end_kind=None):
    """Random hunk body.  Runs of changed lines; some plus lines are mutations of minus lines."""
    lines = []
    n = rng.randint(1, maxlines)
    while len(lines) < n:
        r = rng.random()
        if r < 0.35:
            for _ in range(rng.randint(1, 3)):
                lines.append((' ', rand_text(rng, maxlen, unicode_ok, tabs_ok)))
        else:
            nm = rng.choice([0, 1, 1, 2, 3, 5])
            np_ = rng.choice([0, 1, 1, 2, 3, 5])
            if nm == 0 and np_ == 0:
                nm = 1
            ms = [rand_text(rng, maxlen, unicode_ok, tabs_ok) for _ in range(nm)]
            ps = []
            for j in range(np_):
                if j < nm and rng.random() < 0.6:
                    ps.append(mutate_text(rng, ms[j]))
                else:
                    ps.append(rand_text(rng, maxlen, unicode_ok, tabs_ok))
            lines += [('-', t) for t in ms] + [('+', t) for t in ps]
    if end_kind is not None:
        # force the last line kind
        while lines and lines[-1][0] != end_kind:
            lines.pop()
        if not lines:
            lines = [(end_kind, rand_text(rng, maxlen, unicode_ok, tabs_ok, allow_empty=False))]
    return lines


def gen_hunks(rng, nhunks, **kw):
    hunks = []
    o = rng.choice([1, 1, 2, 9, 10, 99, 100, 999, 1000, 12345])
    n = max(1, o + rng.randint(-1, 3))
    for _ in range(nhunks):
        lines = gen_hunk_lines(rng, **kw)
        h = Hunk(o, n, lines, fragment=rng.choice(FRAGMENTS), omit_counts=rng.random() < 0.3)
        oc, nc = h.counts()
        hunks.append(h)
        gap = rng.randint(1, 50)
        o += oc + gap
        n += nc + gap
    return hunks


SECTION_KINDS = ['modified', 'added', 'deleted', 'renamed', 'renamed_changed', 'copied', 'mode_only',
                 'mode_changed', 'binary', 'binary_added', 'empty_added']


def gen_section(rng, kind=None, simple_paths=False, **kw):
    kind = kind or rng.choice(['modified'] * 6 + SECTION_KINDS)
    a = rand_path(rng, simple_paths)
    b = a
    if kind in ('renamed', 'renamed_changed', 'copied'):
        b = rand_path(rng, simple_paths)
        while b == a:
            b = rand_path(rng, simple_paths)
    s = Section(kind, a, b)
    if kind in ('mode_only', 'mode_changed'):
        s.old_mode, s.new_mode = rng.choice([('100644', '100755'), ('100755', '100644')])
    if s.has_hunks():
        nh = rng.choice([1, 1, 1, 2, 3])
        if kind == 'added':
            lines = [('+', rand_text(rng, kw.get('maxlen', 40))) for _ in range(rng.randint(1, 6))]
            s.hunks = [Hunk(0, 1, lines)]
        elif kind == 'deleted':
            lines = [('-', rand_text(rng, kw.get('maxlen', 40))) for _ in range(rng.randint(1, 6))]
            s.hunks = [Hunk(1, 0, lines)]
        else:
            s.hunks = gen_hunks(rng, nh, **kw)
    return s


def gen_diff(rng, nsections=None, fmt='git', kinds=None, **kw):
    n = nsections or rng.choice([1, 1, 2, 2, 3, 4])
    secs = []
    used = set()
    for _ in range(n):
        if fmt in ('plain', 'plainr'):
            k = 'modified'
        else:
            k = rng.choice(kinds) if kinds else None
        s = gen_section(rng, k, **kw)
        if fmt in ('plain', 'plainr'):
            # concatenated plain diffs of one and the same file are not a realistic input
            tries = 0
            while s.new_path in used and tries < 20:
                s = gen_section(rng, k, **kw)
                tries += 1
            if s.new_path in used:
                continue
            if fmt == 'plain':
                s.old_path = s.new_path + '.orig'
        used.add(s.new_path)
        secs.append(s)
    return Diff(secs, fmt)


# ---------------------------------------------------------------- reserved colour tags

def _tag(i):
    # 24-bit colours that no bundled theme uses: r fixed odd values, distinct per tag
    return '#%02x%02x%02x' % (13 + (i * 37) % 200, 201 - (i * 11) % 150, 7 + (i * 53) % 240)


TAG_NAMES = ['file', 'hh', 'hh_file', 'hh_ln', 'file_dec', 'hh_dec', 'minus', 'minus_emph', 'minus_nonemph',
             'plus', 'plus_emph', 'plus_nonemph', 'zero', 'ws_err', 'ln_left', 'ln_right', 'ln_minus', 'ln_plus',
             'ln_zero', 'hint_fg', 'hint_bg', 'minus_empty', 'plus_empty', 'commit', 'commit_dec',
             'grep_file', 'grep_ln', 'grep_match_line', 'grep_match_word', 'grep_context', 'grep_hdr_file',
             'grep_hdr_dec', 'blame_code', 'blame_sep', 'mc_ours', 'mc_theirs', 'mc_ours_dec', 'mc_theirs_dec',
             'fg_a', 'fg_b', 'fg_c']
TAGS = {name: _tag(i) for i, name in enumerate(TAG_NAMES)}
assert len(set(TAGS.values())) == len(TAGS)


def tag_rgb(name):
    h = TAGS[name]
    return ('rgb', (int(h[1:3], 16), int(h[3:5], 16), int(h[5:7], 16)))


TAG_BY_RGB = {tag_rgb(n): n for n in TAG_NAMES}


def tagged_styles(syntax=False):
    """Option dict giving every element a reserved colour (24-bit mode)."""
    fgc = 'syntax' if syntax else 'normal'
    T = TAGS
    return {
        '--true-color': 'always',
        '--file-style': T['file'],
        '--file-decoration-style': T['file_dec'] + ' ul',
        '--hunk-header-style': T['hh'] + ' line-number',
        '--hunk-header-file-style': T['hh_file'],
        '--hunk-header-line-number-style': T['hh_ln'],
        '--hunk-header-decoration-style': T['hh_dec'] + ' box',
        '--minus-style': '%s %s' % (fgc, T['minus']),
        '--plus-style': '%s %s' % (fgc, T['plus']),
        '--zero-style': '%s %s' % (fgc, T['zero']),
        '--minus-emph-style': '%s %s' % (fgc, T['minus_emph']),
        '--plus-emph-style': '%s %s' % (fgc, T['plus_emph']),
        '--minus-non-emph-style': '%s %s' % (fgc, T['minus_nonemph']),
        '--plus-non-emph-style': '%s %s' % (fgc, T['plus_nonemph']),
        '--whitespace-error-style': 'normal %s' % T['ws_err'],
        '--minus-empty-line-marker-style': 'normal %s' % T['minus_empty'],
        '--plus-empty-line-marker-style': 'normal %s' % T['plus_empty'],
        '--line-numbers-left-style': T['ln_left'],
        '--line-numbers-right-style': T['ln_right'],
        '--line-numbers-minus-style': T['ln_minus'],
        '--line-numbers-plus-style': T['ln_plus'],
        '--line-numbers-zero-style': T['ln_zero'],
        '--inline-hint-style': '%s %s' % (T['hint_fg'], T['hint_bg']),
    }


def to_args(opts):
    """opts: dict option -> value (True for flags, None/False = absent)."""
    args = []
    for k, v in opts.items():
        if v is None or v is False:
            continue
        if v is True:
            args.append(k)
        elif str(v).startswith('-'):
            args.append('%s=%s' % (k, v))
        else:
            args += [k, str(v)]
    return args


# ---------------------------------------------------------------- option sets (unified view)

THEMES_DARK = ['Dracula', 'Monokai Extended', 'Nord', 'zenburn', 'OneHalfDark']
THEMES_LIGHT = ['GitHub', 'OneHalfLight', 'Monokai Extended Light', 'Solarized (light)']
DECORATIONS = ['ul', 'ol', 'box', 'ul ol', 'box ul', '']


def unified_options(rng, allow_raw_headers=True):
    """Random rendering configuration that keeps the unified view; every element tagged.
    Returns (opts, meta)."""
    syntax = rng.random() < 0.4
    o = tagged_styles(syntax=syntax)
    meta = {'syntax': syntax, 'tabs': 8, 'markers': False, 'max_line_length': 3000, 'ln': False,
            'file_rows': True, 'hunk_rows': 'tagged', 'classes': []}
    o['--paging'] = 'never'
    cls = meta['classes']
    if syntax:
        th = rng.choice(THEMES_DARK + THEMES_LIGHT)
        o['--syntax-theme'] = th
        cls.append('syntax')
    else:
        if rng.random() < 0.5:
            o['--syntax-theme'] = 'none'
            cls.append('theme-none')
    if rng.random() < 0.5:
        o['--line-numbers'] = True
        meta['ln'] = True
        cls.append('ln')
    if rng.random() < 0.3:
        o['--keep-plus-minus-markers'] = True
        meta['markers'] = True
        cls.append('markers')
    if rng.random() < 0.5:
        t = rng.choice([0, 1, 2, 3, 4, 8])
        o['--tabs'] = t
        meta['tabs'] = t
        cls.append('tabs%d' % t)
    if rng.random() < 0.5:
        o['--file-decoration-style'] = (TAGS['file_dec'] + ' ' + rng.choice(DECORATIONS)).strip()
        o['--hunk-header-decoration-style'] = (TAGS['hh_dec'] + ' ' + rng.choice(DECORATIONS)).strip()
        cls.append('decor')
    if rng.random() < 0.4:
        b = rng.choice([0, 1, 2, 3, 5, 32])
        o['--line-buffer-size'] = b
        cls.append('buf%d' % b)
        meta['buf'] = b
    if rng.random() < 0.4:
        d = rng.choice(['0', '0.3', '0.6', '1'])
        o['--max-line-distance'] = d
        cls.append('dist' + d)
    if rng.random() < 0.25:
        m = rng.choice([0, 150, 300])
        o['--max-line-length'] = m
        meta['max_line_length'] = m
        cls.append('maxlen%d' % m)
    r = rng.random()
    if r < 0.08:
        o['--diff-highlight'] = True
        cls.append('diff-highlight')
    elif r < 0.16:
        o['--diff-so-fancy'] = True
        cls.append('diff-so-fancy')
    if rng.random() < 0.15:
        o['--navigate'] = True
        cls.append('navigate')
    if rng.random() < 0.3:
        o['--width'] = rng.choice([20, 41, 60, 80, 133, 'variable'])
        cls.append('width')
    if rng.random() < 0.2:
        o['--file-added-label'] = rng.choice(['A', 'new:', '[+]'])
        o['--file-modified-label'] = rng.choice(['M', 'changed:', ''])
        o['--hunk-label'] = rng.choice(['H', '@', ''])
        cls.append('labels')
    r = rng.random()
    if allow_raw_headers:
        if r < 0.08:
            o['--hunk-header-style'] = 'omit'
            meta['hunk_rows'] = 'omit'
            cls.append('hh-omit')
        elif r < 0.16:
            o['--hunk-header-style'] = 'raw'
            meta['hunk_rows'] = 'raw'
            cls.append('hh-raw')
        elif r < 0.5:
            o['--hunk-header-style'] = TAGS['hh'] + ' ' + rng.choice(['file line-number', 'file', 'line-number bold', ''])
            meta['hunk_rows'] = 'maybe'
            cls.append('hh-var')
        r = rng.random()
        if r < 0.06:
            o['--file-style'] = 'omit'
            meta['file_rows'] = False
            cls.append('file-omit')
        elif r < 0.12:
            o['--file-style'] = 'raw'
            meta['file_rows'] = False
            cls.append('file-raw')
    if rng.random() < 0.1:
        o['--dark'] = True
    elif rng.random() < 0.1:
        o['--light'] = True
    if rng.random() < 0.1:
        o['--line-fill-method'] = rng.choice(['ansi', 'spaces'])
        cls.append('fill')
    return o, meta


# ---------------------------------------------------------------- option sets (any mode, hostile)

LN_FORMATS = ['{nm:^4}⋮', '{np:^4}│', '{nm}', '{np:>1}', '[{nm:<6}]', '{nm:^4}{np:^4}{nm}{np}{nm:>9}', '', 'x',
              '{nm:^40}|', '{np:>3}┊', '{nm:~^5}', '{nm:^65535}', '{np:>65536}', '{nm:<100000}', '{np:^4294967296}',
              '{nm:^18446744073709551615}', '{nm:^18446744073709551616}', '{nm:>3.0}', '{np:^4.100000}']
WORD_REGEXES = [r'\w+', '.', r'\S+', '[a-z]+', r'\s+', '.*', r'[^ ]', r'\b', 'a|b', '(x)?']
STYLE_STRINGS = ['red', 'bold', 'normal', 'syntax', 'raw', 'omit', 'auto', 'blue ul', 'syntax bold "#102030"',
                 'reverse', 'italic dim strike', '255 0', 'hidden', 'blink', 'brightred brightblue', 'normal auto',
                 'syntax auto', 'purple', 'white black ol', 'box', 'ul ol red']


def hostile_options(rng):
    """Random option set from every presentation mode with small/odd numeric values."""
    o = {'--paging': 'never'}
    cls = []

    def flag(name, p):
        if rng.random() < p:
            o[name] = True
            cls.append(name.lstrip('-'))
    flag('--side-by-side', 0.35)
    flag('--line-numbers', 0.35)
    flag('--navigate', 0.15)
    flag('--hyperlinks', 0.2)
    flag('--color-only', 0.12)
    flag('--raw', 0.06)
    flag('--diff-highlight', 0.08)
    flag('--diff-so-fancy', 0.08)
    flag('--keep-plus-minus-markers', 0.2)
    flag('--relative-paths', 0.1)
    if rng.random() < 0.6:
        o['--width'] = rng.choice([0, 1, 2, 3, 4, 5, 6, 7, 9, 11, 13, 20, 21, 40, 41, 79, 80, 81, 200, 501, 'variable', '-1', '-3',
                                   65535, 65536, 100000000000000, '-100000000000000'])
        cls.append('width')
    if rng.random() < 0.4:
        o['--wrap-max-lines'] = rng.choice([0, 1, 2, 3, 10, 'unlimited', '∞', 'inf', '18446744073709551615', '18446744073709551614', '9999999999999999999',
                                            '4294967296'])
        cls.append('wrap-max')
    if rng.random() < 0.3:
        o['--tabs'] = rng.choice([0, 1, 2, 8, 50, 65535, 100000000000, 18446744073709551615])
        cls.append('tabs')
    if rng.random() < 0.3:
        o['--line-buffer-size'] = rng.choice([0, 1, 2, 32])
        cls.append('bufsize')
    if rng.random() < 0.3:
        o['--max-line-length'] = rng.choice([0, 1, 2, 5, 20, 100])
        cls.append('maxlen')
    if rng.random() < 0.2:
        o['--max-syntax-highlighting-length'] = rng.choice([0, 1, 5, 100])
        cls.append('maxsyn')
    if rng.random() < 0.3:
        o['--max-line-distance'] = rng.choice(['0', '0.1', '0.5', '1', '1.5', '100'])
        cls.append('dist')
    if rng.random() < 0.25:
        o['--line-numbers-left-format'] = rng.choice(LN_FORMATS)
        o['--line-numbers-right-format'] = rng.choice(LN_FORMATS)
        cls.append('lnfmt')
    if rng.random() < 0.25:
        o['--word-diff-regex'] = rng.choice(WORD_REGEXES)
        cls.append('wordregex')
    if rng.random() < 0.3:
        o['--syntax-theme'] = rng.choice(THEMES_DARK + THEMES_LIGHT + ['none'])
        cls.append('theme')
    if rng.random() < 0.15:
        o['--line-fill-method'] = rng.choice(['ansi', 'spaces'])
        cls.append('fill')
    if rng.random() < 0.15:
        o['--true-color'] = rng.choice(['always', 'never'])
    if rng.random() < 0.1:
        o['--inspect-raw-lines'] = 'false'
        cls.append('noinspect')
    if rng.random() < 0.15:
        o['--wrap-left-symbol'] = rng.choice(['↵', '>', '日', ''])
        o['--wrap-right-symbol'] = rng.choice(['↴', '<', ''])
        o['--wrap-right-prefix-symbol'] = rng.choice(['…', '.', ''])
        o['--wrap-right-percent'] = rng.choice(['0', '37', '100', '50.5'])
        cls.append('wrapsym')
    if rng.random() < 0.1:
        o['--grep-output-type'] = rng.choice(['ripgrep', 'classic'])
        cls.append('greptype')
    if rng.random() < 0.1:
        o['--grep-separator-symbol'] = rng.choice([':', 'keep', '|', ''])
    if rng.random() < 0.1:
        o['--hunk-header-style'] = rng.choice(['omit', 'raw', 'file line-number syntax', 'file', 'line-number', 'syntax bold'])
        cls.append('hhstyle')
    if rng.random() < 0.1:
        o['--file-style'] = rng.choice(['omit', 'raw', 'red', 'syntax'])
        cls.append('filestyle')
    if rng.random() < 0.1:
        o['--commit-style'] = rng.choice(['omit', 'raw', 'red', 'syntax bold'])
        cls.append('commitstyle')
    if rng.random() < 0.2:
        for name in rng.sample(['--minus-style', '--plus-style', '--zero-style', '--minus-emph-style',
                                '--plus-emph-style', '--whitespace-error-style', '--inline-hint-style',
                                '--blame-code-style', '--grep-match-word-style', '--grep-match-line-style',
                                '--grep-context-line-style', '--grep-file-style', '--grep-line-number-style',
                                '--hunk-header-file-style', '--line-numbers-minus-style'], 3):
            o[name] = rng.choice(STYLE_STRINGS)
        cls.append('styles')
    if rng.random() < 0.1:
        dec = rng.choice(['box', 'ul', 'ol', 'ul ol', 'box ul', 'none', 'bold box', ''])
        o['--file-decoration-style'] = dec
        o['--hunk-header-decoration-style'] = rng.choice(['box', 'ul', 'ol', 'none', 'box ul', ''])
        o['--commit-decoration-style'] = rng.choice(['box', 'ul', 'ol', 'none', 'box ul', ''])
        cls.append('decor')
    if rng.random() < 0.08:
        o['--blame-format'] = rng.choice(['{commit}', '{timestamp:<15} {author:<15.14} {commit:<8}', '{author:>3.1}',
                                          '{commit:^1}{commit}{author}', '', '{author:<65536}', '{commit:>100000.70000}',
                                          '{timestamp:^65535}', '{author:.0}', '{author:<18446744073709551615}'])
        o['--blame-separator-format'] = rng.choice(['│{n:^4}│', 'none', '{n:^4_block}', '{n:>2_every-3}', '{n}', '',
                                                    '{n:^4_every-0}', '{n:_every-1}', '{n:<3_every-2}', '{n:_every}',
                                                    '{n:^4_every-18446744073709551615}', '{n:^4_every-99999999999999999999}',
                                                    '{n:^4_every--1}', '{n:0_block}', '{n:^100000}'])
        cls.append('blamefmt')
    if rng.random() < 0.08:
        o['--blame-timestamp-output-format'] = rng.choice(['%Y-%m-%d', '%s', '%H:%M %z', '', '%Q', '%', '%%%', '%Y %', '%-', '%:::z %#z', '%9999Y', '%é'])
        cls.append('blamepal')      # (so that C03 pairs it with blame input)
    if rng.random() < 0.08:
        o['--blame-palette'] = rng.choice(['red', 'red blue', '#010101 #020202 #030303', '1 2 3 4 5 6'])
        cls.append('blamepal')
    if rng.random() < 0.08:
        o['--file-transformation'] = rng.choice(['s/a/b/', 's,src/,,', 's/./XX/g', 's→a→b→', 'sé/x/', 's', 's/', 's/a', 's/(/x/', 's/a/$9/g', 'y/a/b/', 's/a/b/gimsUx'])
    if rng.random() < 0.05:
        o['--relative-paths'] = True
        o['--diff-stat-align-width'] = rng.choice([0, 1, 48, 65535, 100000000000, 18446744073709551615])
        cls.append('relative-paths')
    if rng.random() < 0.05:
        o['--default-language'] = rng.choice(['rs', 'py', 'nonexistent', ''])
    if rng.random() < 0.05:
        o['--map-styles'] = rng.choice(['bold purple => syntax magenta, bold cyan => syntax blue',
                                        'red => blue', '31 => bold'])
        cls.append('mapstyles')
    if rng.random() < 0.05:
        o['--hyperlinks-file-link-format'] = rng.choice(['file://{path}', 'x://{path}:{line}', '{host}', ''])
    if rng.random() < 0.3:
        o['--dark' if rng.random() < 0.5 else '--light'] = True
    return o, cls


# ---------------------------------------------------------------- option sets (side-by-side)

WRAP_SYMS = [('↵', '↴', '…'), ('>', '<', '.'), ('»', '«', '‥'), ('⏎', '↓', '~')]


def sbs_options(rng, line_numbers=None, width=None):
    """Random side-by-side configuration, every element tagged.  Returns (opts, meta)."""
    syntax = rng.random() < 0.3
    o = tagged_styles(syntax=syntax)
    o['--paging'] = 'never'
    o['--side-by-side'] = True
    cls = ['sbs']
    meta = {'syntax': syntax, 'tabs': 8, 'markers': False, 'max_line_length': 3000, 'classes': cls,
            'file_rows': True, 'hunk_rows': 'tagged'}
    if syntax:
        o['--syntax-theme'] = rng.choice(THEMES_DARK + THEMES_LIGHT)
    elif rng.random() < 0.5:
        o['--syntax-theme'] = 'none'
    ln = rng.random() < 0.75 if line_numbers is None else line_numbers
    # in side-by-side mode line numbers are on by default (the feature enables them); formats may be emptied
    lfmt, rfmt = '{nm:^4}│', '{np:^4}│'
    r = rng.random()
    if not ln:
        lfmt, rfmt = '', ''
        cls.append('no-ln')
        if rng.random() < 0.3:
            # formats without a placeholder: a gutter that shows no numbers, ASCII, box-drawing or double-width characters
            lfmt, rfmt = rng.choice([('\uff5c', '\uff5c'), ('\u2502+\u2502', '\u2502+\u2502'), ('\u6f22 ', '\uff1a'), ('|', '\uff5c\uff5c'), ('\uff5c', '')])
            cls.append('ln-fmt-without-placeholder')
    elif r < 0.3:
        lfmt, rfmt = rng.choice([('{nm:>3}┊', '{np:>3}┊'), ('[{nm:<5}]', '[{np:<5}]'), ('{nm}:', '{np}:'),
                                 ('{nm:^6}⋮', '{np:^6}│'), ('漢{nm:^4}│', '漢{np:^4}│'), ('{nm:>3}：', '{np:>3}：'),
                                 ('{nm:^4.4}│', '{np:^4.4}│'), ('{nm:>3.2}┊', '{np:>3.2}┊'),     # (a precision does not apply to numbers)
                                 # gutters of unequal width: the two panels are equally wide, their text areas are not
                                 ('{nm:^4}│', '{nm:^4}⋮{np:^4}│'), ('{nm:^4}⋮{np:^4}│', '{np:^3}│'), ('{nm:>2}|', '{np:>9}|'),
                                 ('{nm:^4}│', '{nm:^4}⋮{np:^4}│'), ('{nm:>2}|', '{np:>12}|')])
        cls.append('ln-fmt')
    o['--line-numbers-left-format'] = lfmt
    o['--line-numbers-right-format'] = rfmt
    meta['lfmt'], meta['rfmt'] = lfmt, rfmt
    w = width or rng.choice([40, 41, 50, 61, 79, 80, 81, 100, 120, 133, 160, 200])
    o['--width'] = w
    meta['width'] = w
    cls.append('w-odd' if w % 2 else 'w-even')
    wm = rng.choice([None, 0, 1, 2, 3, 5, 'unlimited'])
    meta['wrap_max'] = 2 if wm is None else wm
    if wm is not None:
        o['--wrap-max-lines'] = wm
        cls.append('wrap%s' % wm)
    syms = WRAP_SYMS[0]
    if rng.random() < 0.4:
        syms = rng.choice(WRAP_SYMS)
        o['--wrap-left-symbol'], o['--wrap-right-symbol'], o['--wrap-right-prefix-symbol'] = syms
        cls.append('wrapsym')
    meta['syms'] = syms
    if rng.random() < 0.3:
        p = rng.choice(['1', '20', '37', '50', '80', '99'])
        o['--wrap-right-percent'] = p
        cls.append('wrp')
    if rng.random() < 0.3:
        o['--keep-plus-minus-markers'] = True
        meta['markers'] = True
        cls.append('markers')
    if rng.random() < 0.4:
        t = rng.choice([1, 2, 4, 8])
        o['--tabs'] = t
        meta['tabs'] = t
        cls.append('tabs%d' % t)
    if rng.random() < 0.3:
        o['--line-fill-method'] = rng.choice(['ansi', 'spaces'])
        cls.append('fill')
    if rng.random() < 0.3:
        o['--max-line-distance'] = rng.choice(['0', '0.3', '0.6', '1'])
    if rng.random() < 0.3:
        o['--line-buffer-size'] = rng.choice([0, 1, 2, 32])
    if rng.random() < 0.3:
        o['--dark' if rng.random() < 0.5 else '--light'] = True
    return o, meta


def roles_from_unified(visible_lines):
    """Roles (header / hunkheader / hunk / note / meta) of the lines of real unified-diff output, derived
    from the hunk headers' counts (the only reliable way to tell '--- x' content from a header)."""
    import re
    roles = []
    old = new = 0
    for l in visible_lines:
        if old > 0 or new > 0:
            c = l[:1]
            if c == ' ' or c == '':
                old -= 1
                new -= 1
                roles.append('hunk')
                continue
            if c == '-':
                old -= 1
                roles.append('hunk')
                continue
            if c == '+':
                new -= 1
                roles.append('hunk')
                continue
            if c == '\\':
                roles.append('note')
                continue
            old = new = 0
        m = re.match(r'^@@ -(\d+)(?:,(\d+))? \+(\d+)(?:,(\d+))? @@', l)
        if m:
            old = int(m.group(2)) if m.group(2) is not None else 1
            new = int(m.group(4)) if m.group(4) is not None else 1
            roles.append('hunkheader')
        elif l.startswith('\\'):
            roles.append('note')
        elif l.startswith('commit '):
            roles.append('commit')
        elif l.startswith(('diff ', 'index ', '--- ', '+++ ', 'new file', 'deleted file', 'old mode', 'new mode', 'similarity',
                           'rename ', 'copy ', 'Binary ', 'Submodule ')):
            roles.append('header')
        else:
            roles.append('meta')
    return roles
