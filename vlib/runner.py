"""Hermetic execution of the delta binary and recording of the execution."""
import errno
import fcntl
import os
import pty
import select
import shutil
import signal
import struct
import subprocess
import sys
import tempfile
import termios
import time

VERIF = os.path.dirname(os.path.dirname(os.path.abspath(__file__)))
STUBS = os.path.join(VERIF, 'stubs')
TARGET = os.path.join(VERIF, 'target')

_WORK = None


def workdir():
    """Per-process scratch directory (outside /repo and /verif); removed by cleanup()."""
    global _WORK
    if _WORK is None or _WORK[0] != os.getpid():
        base = os.environ.get('VERIF_WORK')
        if not base:
            base = tempfile.mkdtemp(prefix='verif-work-')
            os.environ['VERIF_WORK'] = base
        d = os.path.join(base, 'p%d' % os.getpid())
        os.makedirs(os.path.join(d, 'home'), exist_ok=True)
        os.makedirs(os.path.join(d, 'cwd'), exist_ok=True)
        os.makedirs(os.path.join(d, 'tmp'), exist_ok=True)
        _WORK = (os.getpid(), d)
    return _WORK[1]


def cleanup():
    base = os.environ.get('VERIF_WORK')
    if base and os.path.isdir(base) and os.path.basename(base).startswith('verif-work-'):
        shutil.rmtree(base, ignore_errors=True)


def binary(variant='hooks'):
    p = os.environ.get('VERIF_DELTA_' + variant.upper().replace('-', '_'))
    if p:
        return p
    if variant in ('hooks', 'plain'):
        return os.path.join(TARGET, variant, 'release', 'delta')
    if variant == 'asan':
        return os.path.join(TARGET, 'asan', 'x86_64-unknown-linux-gnu', 'release', 'delta')
    if variant == 'tsan':
        return os.path.join(TARGET, 'tsan', 'x86_64-unknown-linux-gnu', 'release', 'delta')
    raise ValueError(variant)


class Result(object):
    __slots__ = ('args', 'out', 'err', 'rc', 'signal', 'timed_out', 'wall', 'maxrss_kb', 'trace',
                 'stdin_accepted', 'env', 'mode', 'pty_size', 'stdin', 'cwd', 'parent_argv', 'hwm_kb')

    def crashed(self):
        return self.timed_out or self.signal is not None

    def brief(self):
        return {'args': self.args, 'rc': self.rc, 'signal': self.signal, 'timed_out': self.timed_out,
                'stderr': self.err.decode('utf-8', 'replace')[-600:]}


def base_env(extra=None, path_prefix=None, home=None):
    w = workdir()
    env = {
        'PATH': (path_prefix + ':' if path_prefix else '') + '/usr/local/bin:/usr/bin:/bin',
        'HOME': home or os.path.join(w, 'home'),
        'XDG_CONFIG_HOME': os.path.join(home or os.path.join(w, 'home'), '.config'),
        'XDG_CACHE_HOME': os.path.join(home or os.path.join(w, 'home'), '.cache'),
        'TERM': 'xterm-256color',
        'COLORTERM': 'truecolor',
        'LC_ALL': 'C.UTF-8',
        'LANG': 'C.UTF-8',
        'RUST_BACKTRACE': '1',
        'TMPDIR': os.path.join(w, 'tmp'),
        'GIT_CONFIG_NOSYSTEM': '1',
        'TZ': 'UTC',
    }
    if extra:
        for k, v in extra.items():
            if v is None:
                env.pop(k, None)
            else:
                env[k] = v
    return env


def _limit_memory():
    import resource
    lim = 6 << 30
    resource.setrlimit(resource.RLIMIT_AS, (lim, lim))


def _set_winsize(fd, rows, cols):
    fcntl.ioctl(fd, termios.TIOCSWINSZ, struct.pack('HHHH', rows, cols, 0, 0))


def _pump(proc, stdin_data, out_fd, err_fd, in_fd, timeout, is_pty):
    """select loop: feed stdin, collect stdout/stderr.  Returns (out, err, timed_out, stdin_accepted)."""
    out = bytearray()
    err = bytearray()
    rfds = [fd for fd in (out_fd, err_fd) if fd is not None]
    wfds = [in_fd] if in_fd is not None else []
    for fd in rfds + wfds:
        fl = fcntl.fcntl(fd, fcntl.F_GETFL)
        fcntl.fcntl(fd, fcntl.F_SETFL, fl | os.O_NONBLOCK)
    pos = 0
    deadline = time.time() + timeout
    timed_out = False
    stdin_accepted = in_fd is None
    view = memoryview(stdin_data) if stdin_data is not None else None
    if in_fd is not None and not stdin_data:
        os.close(in_fd)
        wfds = []
        stdin_accepted = True
    exited_at = None
    while rfds or wfds:
        now = time.time()
        if now > deadline:
            timed_out = True
            break
        r, w, _ = select.select(rfds, wfds, [], min(0.5, deadline - now))
        if not r and not w:
            if proc.poll() is not None:
                # process gone; in pty mode the master never reports EOF reliably
                if exited_at is None:
                    exited_at = time.time()
                elif time.time() - exited_at > 0.05 or is_pty:
                    if is_pty or time.time() - exited_at > 2.0:
                        break
            continue
        for fd in w:
            try:
                nw = os.write(fd, view[pos:pos + 65536])
                pos += nw
                if pos >= len(view):
                    os.close(fd)
                    wfds.remove(fd)
                    stdin_accepted = True
            except BlockingIOError:
                pass
            except OSError as e:
                if e.errno in (errno.EPIPE, errno.EBADF):
                    try:
                        os.close(fd)
                    except OSError:
                        pass
                    wfds.remove(fd)
                else:
                    raise
        for fd in r:
            try:
                data = os.read(fd, 1 << 16)
            except BlockingIOError:
                continue
            except OSError as e:
                if e.errno == errno.EIO:
                    data = b''
                else:
                    raise
            if not data:
                rfds.remove(fd)
                continue
            if fd == out_fd:
                out += data
            else:
                err += data
    for fd in wfds:
        try:
            os.close(fd)
        except OSError:
            pass
    return bytes(out), bytes(err), timed_out, stdin_accepted


NEUTRAL_PARENT = ['git', 'verif-neutral-parent']


class _HwmPoller(object):
    def __init__(self, pid, via_shell):
        import threading
        self.pid = pid
        self.via_shell = via_shell
        self.target = None if via_shell else pid
        self.hwm_kb = None
        self._stop = threading.Event()
        self._t = threading.Thread(target=self._run, daemon=True)

    def start(self):
        self._t.start()

    def stop(self):
        self._stop.set()
        self._t.join(timeout=2)

    def _run(self):
        while not self._stop.is_set():
            try:
                if self.target is None:
                    with open('/proc/%d/task/%d/children' % (self.pid, self.pid)) as f:
                        kids = f.read().split()
                    if kids:
                        self.target = int(kids[0])
                if self.target is not None:
                    with open('/proc/%d/status' % self.target) as f:
                        for line in f:
                            if line.startswith('VmHWM:'):
                                v = int(line.split()[1])
                                if self.hwm_kb is None or v > self.hwm_kb:
                                    self.hwm_kb = v
                                break
            except (OSError, ValueError):
                pass
            self._stop.wait(0.01)


def run_delta(args, stdin=b'', env=None, cwd=None, mode='pipe', pty_size=(24, 80), timeout=20.0,
              variant='hooks', trace=False, path_prefix=None, preload=None, parent_argv=NEUTRAL_PARENT,
              exe=None, home=None, wrapper=None, stdin_is_none=False, measure_rss=False):
    """Run delta once.  args: list of str (without argv[0]).  stdin: bytes.
    parent_argv: (list of str, [0] is the impersonated command name) delta is started as a child of a
    /bin/sh process whose /proc/<pid>/cmdline reads like parent_argv.  The default is a "git" command with
    a subcommand delta does not parse: delta then stops looking at other processes and the calling process
    is deterministically "none", whatever else runs on the machine.  None = start delta directly.
    wrapper: list prefix e.g. ['valgrind', ...]."""
    w = workdir()
    e = base_env(env, path_prefix=path_prefix, home=home)
    if preload:
        e['LD_PRELOAD'] = preload
    trace_path = None
    if trace:
        trace_path = os.path.join(w, 'tmp', 'trace.%d' % int(time.time() * 1e6))
        e['DELTA_VERIF_TRACE'] = trace_path
    exe = exe or binary(variant)
    argv = [exe] + list(args)
    if wrapper:
        argv = list(wrapper) + argv
    cwd = cwd or os.path.join(w, 'cwd')
    res = Result()
    res.args = list(args)
    res.env = dict(env or {})
    res.mode = mode
    res.pty_size = pty_size
    res.stdin = stdin
    res.parent_argv = list(parent_argv) if parent_argv is not None and parent_argv is not NEUTRAL_PARENT else None
    res.cwd = cwd
    master = slave = None
    t0 = time.time()
    popen_kw = {}
    if parent_argv is not None:
        # sh -c '<script>' name args... : $0=name.  cmdline = parent_argv[0] -c script parent_argv[1:]
        import shlex
        script = ' '.join(shlex.quote(a) for a in argv) + '; rc=$?; exit $rc'
        real_argv = [parent_argv[0], '-c', script] + list(parent_argv[1:])
        popen_kw['executable'] = '/bin/sh'
        argv = real_argv
    if mode == 'pty':
        master, slave = pty.openpty()
        _set_winsize(slave, pty_size[0], pty_size[1])
        attr = termios.tcgetattr(slave)
        attr[1] = attr[1] & ~termios.OPOST
        termios.tcsetattr(slave, termios.TCSANOW, attr)
        stdout_arg = slave
    else:
        stdout_arg = subprocess.PIPE
    if variant not in ('asan', 'tsan') and not wrapper:
        # a runaway allocation must end in an allocation failure (classified as a crash), not in an exhausted machine
        popen_kw['preexec_fn'] = _limit_memory
    proc = subprocess.Popen(argv, stdin=(None if stdin_is_none else subprocess.PIPE), stdout=stdout_arg,
                            stderr=subprocess.PIPE, env=e, cwd=cwd, close_fds=True,
                            start_new_session=True, **popen_kw)
    if slave is not None:
        os.close(slave)
    res.hwm_kb = None
    poller = None
    if measure_rss:
        # ru_maxrss of a child also counts what this (large) process had resident when it forked; the high-water mark
        # of the delta process itself is sampled from /proc while it runs
        poller = _HwmPoller(proc.pid, parent_argv is not None)
        poller.start()
    out_fd = master if mode == 'pty' else proc.stdout.fileno()
    in_fd = None if stdin_is_none else os.dup(proc.stdin.fileno())
    if not stdin_is_none:
        proc.stdin.close()
    try:
        out, err, timed_out, accepted = _pump(proc, stdin, out_fd, proc.stderr.fileno(), in_fd, timeout,
                                              mode == 'pty')
    finally:
        pass
    res.timed_out = timed_out
    if timed_out:
        res.signal = None
        try:
            os.killpg(proc.pid, signal.SIGKILL)
        except OSError:
            pass
    if poller is not None:
        poller.stop()
        res.hwm_kb = poller.hwm_kb
    try:
        _, status, ru = os.wait4(proc.pid, 0)
        proc.returncode = 0
        res.maxrss_kb = ru.ru_maxrss
        if os.WIFSIGNALED(status):
            res.signal = os.WTERMSIG(status)
            res.rc = -res.signal
        else:
            res.signal = None
            res.rc = os.WEXITSTATUS(status)
            if parent_argv is not None and res.rc > 128 and (res.rc - 128) in (4, 6, 7, 8, 9, 11, 15, 31):
                # the intermediate shell reports a child killed by a signal as 128+n
                res.signal = res.rc - 128
    except ChildProcessError:
        res.rc = proc.returncode
        res.signal = None
        res.maxrss_kb = 0
    if timed_out:
        res.signal = None
    if mode == 'pty':
        # drain what is left
        try:
            while True:
                r, _, _ = select.select([master], [], [], 0)
                if not r:
                    break
                d = os.read(master, 1 << 16)
                if not d:
                    break
                out += d
        except OSError:
            pass
        os.close(master)
    else:
        proc.stdout.close()
    proc.stderr.close()
    res.out = out
    res.err = err
    res.stdin_accepted = accepted
    res.wall = time.time() - t0
    res.trace = None
    if trace_path:
        try:
            with open(trace_path, 'r', errors='replace') as f:
                res.trace = f.read().splitlines()
            os.unlink(trace_path)
        except OSError:
            res.trace = []
    return res


def write_file(name, data):
    """Write a scratch file in this worker's tmp dir and return its path."""
    p = os.path.join(workdir(), 'tmp', name)
    os.makedirs(os.path.dirname(p), exist_ok=True)
    with open(p, 'wb') as f:
        f.write(data if isinstance(data, bytes) else data.encode('utf-8'))
    return p
