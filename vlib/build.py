"""Builds of /repo's current working tree into /verif/target/<variant>."""
import os
import subprocess
import sys
import time

from . import runner

REPO = os.environ.get('VERIF_REPO', '/repo')
CFG = '--cfg dandavison_delta_verif --check-cfg cfg(dandavison_delta_verif)'


class BuildError(Exception):
    pass


def _env(variant):
    e = dict(os.environ)
    e['CARGO_NET_OFFLINE'] = 'true'
    e['CARGO_TARGET_DIR'] = os.path.join(runner.TARGET, variant)
    e.pop('RUSTFLAGS', None)
    if variant == 'hooks':
        e['CARGO_PROFILE_RELEASE_OVERFLOW_CHECKS'] = 'true'
        e['CARGO_PROFILE_RELEASE_DEBUG_ASSERTIONS'] = 'true'
        e['CARGO_PROFILE_RELEASE_DEBUG'] = '1'
        e['RUSTFLAGS'] = CFG
    elif variant == 'plain':
        e['CARGO_PROFILE_RELEASE_DEBUG'] = '1'
    elif variant == 'asan':
        e['CARGO_PROFILE_RELEASE_OVERFLOW_CHECKS'] = 'true'
        e['CARGO_PROFILE_RELEASE_DEBUG_ASSERTIONS'] = 'true'
        e['CARGO_PROFILE_RELEASE_DEBUG'] = '1'
        e['RUSTFLAGS'] = '-Zsanitizer=address -Cforce-frame-pointers=yes ' + CFG
    elif variant == 'tsan':
        e['CARGO_PROFILE_RELEASE_DEBUG'] = '1'
        e['RUSTFLAGS'] = '-Zsanitizer=thread ' + CFG
    return e


def _cmd(variant):
    if variant in ('hooks', 'plain'):
        return ['cargo', 'build', '--release', '--offline', '--bin', 'delta']
    if variant == 'asan':
        return ['cargo', '+nightly', 'build', '--release', '--offline', '--bin', 'delta',
                '--target', 'x86_64-unknown-linux-gnu']
    if variant == 'tsan':
        return ['cargo', '+nightly', 'build', '--release', '--offline', '--bin', 'delta',
                '-Zbuild-std', '--target', 'x86_64-unknown-linux-gnu']
    raise ValueError(variant)


def ensure(variant='hooks', quiet=True):
    """(Re)build the variant from /repo's working tree.  Raises BuildError."""
    if os.environ.get('VERIF_SKIP_BUILD') == '1' and os.path.exists(runner.binary(variant)):
        return runner.binary(variant)
    t0 = time.time()
    p = subprocess.run(_cmd(variant), cwd=REPO, env=_env(variant), stdout=subprocess.PIPE,
                       stderr=subprocess.STDOUT)
    if p.returncode != 0:
        sys.stderr.write(p.stdout.decode('utf-8', 'replace')[-4000:])
        raise BuildError('build of variant %s failed (exit %d)' % (variant, p.returncode))
    b = runner.binary(variant)
    if not os.path.exists(b):
        raise BuildError('binary missing after build: ' + b)
    if not quiet:
        sys.stderr.write('[build %s: %.1fs]\n' % (variant, time.time() - t0))
    return b
