"""Input corpora beyond plain diffs (blame, grep, rg --json, logs, merge diffs), git's own
colouring, and structured mutators (used by C03 and others)."""
import json
import random

from . import gen

E = '\x1b'

AUTHORS = ['Dan Davison', 'A', 'Jörg Müller', '山田 太郎', 'x y z w', 'Thomas Otto', "O'Neil", 'a-b', 'Ze\u0301 Anto\u0301nio', 'ＡＢＣ']
ZONES = ['+0000', '-0700', '+0530', '+1245', '-0330', '+0900']


# ---------------------------------------------------------------- blame

def gen_blame_model(rng, nlines=None, ncommits=None):
    """Returns list of dicts: commit, boundary, file(optional), author, time(str), tz, lineno, code."""
    ncommits = ncommits or rng.randint(1, 5)
    commits = []
    for i in range(ncommits):
        h = ''.join(rng.choice('0123456789abcdef') for _ in range(8))
        commits.append({'hash': h, 'boundary': rng.random() < 0.15, 'author': rng.choice(AUTHORS),
                        'time': '20%02d-%02d-%02d %02d:%02d:%02d' % (rng.randint(10, 23), rng.randint(1, 12),
                                                                     rng.randint(1, 28), rng.randint(0, 23),
                                                                     rng.randint(0, 59), rng.randint(0, 59)),
                        'tz': rng.choice(ZONES)})
    nlines = nlines or rng.randint(1, 14)
    pattern = rng.choice(['random', 'runs', 'alternate'])
    lines = []
    cur = rng.randrange(ncommits)
    with_file = rng.random() < 0.2
    for i in range(nlines):
        if pattern == 'random':
            cur = rng.randrange(ncommits)
        elif pattern == 'runs':
            if rng.random() < 0.35:
                cur = rng.randrange(ncommits)
        else:
            cur = (cur + 1) % ncommits
        c = commits[cur]
        lines.append({'commit': c, 'lineno': i + 1, 'code': gen.rand_text(rng, 50),
                      'file': 'src/f.rs' if with_file else None})
    return lines


def shown_blame_hash(c):
    """The hash column as git prints it: '^' marks a boundary commit, '?' / '*' lines of ignored revisions
    (blame.markIgnoredLines / markUnblamableLines); each mark takes the place of one hash character."""
    m = c.get('mark', '')
    if c['boundary']:
        return m + '^' + c['hash'][:7 - len(m)]
    return m + c['hash'][:len(c['hash']) - len(m)]


def blame_text(model, width=None):
    out = []
    aw = max(len(l['commit']['author']) for l in model) if model else 1
    nw = len(str(len(model)))
    for l in model:
        c = l['commit']
        h = shown_blame_hash(c)
        f = (' ' + l['file']) if l['file'] else ''
        out.append('%s%s (%s %s %s %s) %s' % (h, f, c['author'].ljust(aw), c['time'], c['tz'],
                                               str(l['lineno']).rjust(nw), l['code']))
    return '\n'.join(out) + '\n'


# ---------------------------------------------------------------- grep

def gen_grep_model(rng, nfiles=None, ambiguous_ok=False):
    """List of (path, [(lineno, kind 'match'|'context', code, [(start,end) submatches])])"""
    nfiles = nfiles or rng.randint(1, 3)
    files = []
    used = set()
    for _ in range(nfiles):
        p = rng.choice(['src/main.rs', 'a.py', 'lib/util-x.c', 'src/co-7-fig.rs', 'x/y.z/w.js', 'doc/read me.md',
                        'etc/META-INF/foo.properties', 'v1.2/a_b.go', 'Makefile'])
        if p in used:
            continue
        used.add(p)
        hits = []
        ln = rng.randint(1, 2000)
        for _ in range(rng.randint(1, 6)):
            ln += rng.randint(1, 30)
            code = gen.rand_text(rng, 60, allow_empty=False)
            import re as _re
            while code.strip() == '' or (not ambiguous_ok and _re.search(r'[^ ]\.[^. :=-]{1,10}[:=-]|^[-=:]|\.\w+[:=-]\d+[:=-]', code)):
                # (not ambiguous_ok: outside the shapes for which plain grep text is misread - see the C16 findings)
                code = gen.rand_text(rng, 60, allow_empty=False)
            kind = 'match' if rng.random() < 0.7 else 'context'
            subs = []
            if kind == 'match':
                b = code.encode('utf-8')
                # pick a char-aligned span
                idxs = [len(code[:k].encode('utf-8')) for k in range(len(code) + 1)]
                if len(idxs) > 1:
                    a = rng.randrange(len(idxs) - 1)
                    z = rng.randint(a + 1, min(len(idxs) - 1, a + 6))
                    subs = [(idxs[a], idxs[z])]
            hits.append((ln, kind, code, subs))
        files.append((p, hits))
    return files


def grep_text_plain(model, with_numbers=True):
    out = []
    for p, hits in model:
        for ln, kind, code, _ in hits:
            sep = ':' if kind == 'match' else '-'
            if with_numbers:
                out.append('%s%s%d%s%s' % (p, sep, ln, sep, code))
            else:
                out.append('%s%s%s' % (p, sep, code))
    return '\n'.join(out) + '\n'


def grep_text_git_color(model, with_numbers=True):
    out = []
    for p, hits in model:
        for ln, kind, code, subs in hits:
            sep = ':' if kind == 'match' else '-'
            b = code.encode('utf-8')
            if subs:
                s, e = subs[0]
                code_c = b[:s].decode() + E + '[1;31m' + b[s:e].decode() + E + '[m' + b[e:].decode()
            else:
                code_c = code
            s = E + '[35m' + p + E + '[m' + E + '[36m' + sep + E + '[m'
            if with_numbers:
                s += E + '[32m%d' % ln + E + '[m' + E + '[36m' + sep + E + '[m'
            out.append(s + code_c)
    return '\n'.join(out) + '\n'


def rg_json_text(model):
    out = []
    for p, hits in model:
        out.append(json.dumps({'type': 'begin', 'data': {'path': {'text': p}}}))
        for ln, kind, code, subs in hits:
            b = code.encode('utf-8')
            d = {'type': kind, 'data': {'path': {'text': p}, 'lines': {'text': code + '\n'}, 'line_number': ln,
                                        'absolute_offset': ln * 10,
                                        'submatches': [{'match': {'text': b[s:e].decode('utf-8', 'replace')},
                                                        'start': s, 'end': e} for s, e in subs]}}
            out.append(json.dumps(d, ensure_ascii=rng_false()))
        out.append(json.dumps({'type': 'end', 'data': {'path': {'text': p}, 'binary_offset': None,
                                                        'stats': {'elapsed': {'secs': 0, 'nanos': 1, 'human': '0s'},
                                                                  'searches': 1, 'searches_with_match': 1,
                                                                  'bytes_searched': 10, 'bytes_printed': 10,
                                                                  'matched_lines': 1, 'matches': 1}}}))
    return '\n'.join(out) + '\n'



def rg_json_text_multiline(model, rng):
    """rg --json --multiline.  `model` is changed in place where a match is made to run across a line end or an empty last
    line is added to a record: it keeps one entry per line of the file - that is what has to be shown."""
    # rg --json --multiline: consecutive matching lines of a file reported in one record (text with line breaks inside,
    # one line number, submatch offsets counted over the whole text - a match may run across a line end).  The model keeps
    # one entry per line of the file: that is what has to be shown.
    import json
    out = []
    for fi, (p, hits) in enumerate(model):
        out.append(json.dumps({'type': 'begin', 'data': {'path': {'text': p}}}))
        i = 0
        while i < len(hits):
            grp = [i]
            while (grp[-1] + 1 < len(hits) and hits[grp[-1] + 1][1] == 'match' and hits[grp[-1]][1] == 'match'
                   and hits[grp[-1] + 1][0] == hits[grp[-1]][0] + 1 and len(grp) < 3 and rng.random() < 0.8):
                grp.append(grp[-1] + 1)
            last = grp[-1]
            if rng.random() < 0.3 and hits[last][1] == 'match' and (last + 1 >= len(hits) or hits[last + 1][0] > hits[last][0] + 1):
                # the record ends with an empty matched line (a pattern that ends in '\n\n'): a line of the file like the others
                hits.insert(last + 1, (hits[last][0] + 1, 'match', '', []))
                grp.append(last + 1)
            crlf = len(grp) > 1 and rng.random() < 0.2
            eol = '\r\n' if crlf else '\n'
            text = ''
            subs = []
            for gi, k in enumerate(grp):
                ln, kind, code, sb = hits[k]
                off = len(text.encode('utf-8'))
                sb = list(sb)
                if gi > 0 and subs and hits[grp[gi - 1]][3] and rng.random() < 0.4:
                    # the previous match runs on across the line end into this line
                    prev_ln, prev_kind, prev_code, prev_sb = hits[grp[gi - 1]]
                    plen = len(prev_code.encode('utf-8'))
                    b = code.encode('utf-8')
                    cut = next((n for n in range(1, len(b) + 1) if (n == len(b) or (b[n] & 0xC0) != 0x80)), len(b)) if b else 0
                    s0 = subs[-1][0]
                    subs[-1] = (s0, off + cut)
                    hits[grp[gi - 1]] = (prev_ln, prev_kind, prev_code, list(prev_sb[:-1]) + [(prev_sb[-1][0], plen)])
                    sb = [(0, cut)] + [(a, z) for a, z in sb if a >= cut]
                    hits[k] = (ln, kind, code, sb)
                    subs += [(off + a, off + z) for a, z in sb[1:]]
                else:
                    subs += [(off + a, off + z) for a, z in sb]
                text += code + eol
            ln0, kind0 = hits[grp[0]][0], hits[grp[0]][1]
            tb = text.encode('utf-8')
            out.append(json.dumps({'type': kind0, 'data': {'path': {'text': p}, 'lines': {'text': text}, 'line_number': ln0, 'absolute_offset': ln0 * 10,
                                                           'submatches': [{'match': {'text': tb[a:z].decode('utf-8', 'replace')}, 'start': a, 'end': z} for a, z in subs]}}))
            i = grp[-1] + 1
        out.append(json.dumps({'type': 'end', 'data': {'path': {'text': p}, 'binary_offset': None, 'stats': {'elapsed': {'secs': 0, 'nanos': 1, 'human': '0s'},
                                                                                                           'searches': 1, 'searches_with_match': 1, 'bytes_searched': 10,
                                                                                                           'bytes_printed': 10, 'matched_lines': 1, 'matches': 1}}}))
    return '\n'.join(out) + '\n'


def rng_false():
    return False


# ---------------------------------------------------------------- git log / commit meta

def commit_header(rng):
    h = ''.join(rng.choice('0123456789abcdef') for _ in range(rng.choice([40, 40, 40, 7, 8, 12])))     # full, or --abbrev-commit
    lines = ['commit ' + h + rng.choice(['', ' (HEAD -> main)', ' (tag: v1.0, origin/main)']),
             'Author: %s <a@b.c>' % rng.choice(AUTHORS), 'Date:   Mon Jan 1 00:00:00 2024 ' + rng.choice(ZONES), '']
    for _ in range(rng.randint(1, 3)):
        lines.append('    ' + gen.rand_text(rng, 50, tabs_ok=False))
    lines.append('')
    return lines, h


def diffstat_lines(rng, paths):
    out = []
    for p in paths:
        n = rng.randint(1, 40)
        out.append(' %s | %d %s' % (p.ljust(12), n, '+' * (n // 2 + 1) + '-' * (n // 3)))
    out.append(' %d files changed, 10 insertions(+), 3 deletions(-)' % len(paths))
    out.append('')
    return out


# ---------------------------------------------------------------- combined diffs / merge conflicts

def gen_combined(rng, conflict=False, nparents=2, nhunks=1, nconflicts=1, styles=('diff3',), lead=None, unterminated=False, note=False, short_lines=False):
    """A 'diff --cc' section.  Returns (lines, model) where model is a list of
    ('line', prefix, text) / ('conflict', ours_lines, ancestral_lines, theirs_lines)."""
    path = gen.rand_path(rng, simple=True)
    head = ['diff --cc ' + path, 'index 1111111,2222222..3333333', '--- a/' + path, '+++ b/' + path]
    at = '@' * (nparents + 1)
    body = []
    model = []
    prefixes = [' ' * nparents, '+' + ' ' * (nparents - 1), ' ' * (nparents - 1) + '+', '-' + ' ' * (nparents - 1),
                ' ' * (nparents - 1) + '-', '+' * nparents, '-' * nparents]
    def hh(cnt, start=1):
        return '%s -%d,%d -%d,%d +%d,%d %s' % (at, start, cnt, start, cnt, start, cnt, at) if nparents == 2 else \
            '%s -%d,%d -%d,%d -%d,%d +%d,%d %s' % (at, start, cnt, start, cnt, start, cnt, start, cnt, at)
    earlier = []      # complete earlier hunks (reduced context, e.g. git show -U0: a hunk may end in a removed line)
    for hk in range(nhunks - 1):
        hb = []
        for _ in range(rng.randint(1, 5)):
            p = rng.choice(prefixes)
            t = gen.rand_text(rng, 40, allow_empty=False, tabs_ok=False)
            while t.startswith(('=======', '<<<<<<<', '>>>>>>>', '|||||||')) or (short_lines and not t.strip()):
                t = gen.rand_text(rng, 40, allow_empty=False, tabs_ok=False)
            hb.append(p + t)
            model.append(('line', p, t))
        earlier += [hh(len(hb), 10 * (hk + 1))] + hb
    n = rng.randint(2, 8)
    if lead is not None:
        n = lead        # (0: a conflict region starts on the first line of the hunk)
    for _ in range(n):
        p = rng.choice(prefixes)
        t = gen.rand_text(rng, 40, allow_empty=False, tabs_ok=False)
        while t.startswith(('=======', '<<<<<<<', '>>>>>>>', '|||||||')) or (short_lines and not t.strip()):
            t = gen.rand_text(rng, 40, allow_empty=False, tabs_ok=False)   # would read as a conflict marker
        body.append(p + t)
        model.append(('line', p, t))
    if short_lines and len(body) >= 2:
        # lines shorter than the marker columns (an unchanged empty line whose blanks were stripped on the way): not in the
        # model - they show as empty rows - but the lines after them are still the lines they were
        for _ in range(rng.randint(1, 2)):
            body.insert(rng.randrange(1, len(body)), rng.choice(['', '', ' '] if nparents >= 2 else ['']))
    if conflict:
        def side_text():
            # a side's content equal to a conflict marker is inherently ambiguous: not generated
            while True:
                t = gen.rand_text(rng, 30, allow_empty=False, tabs_ok=False)
                if rng.random() < 0.05:
                    t = rng.choice(['==========', '======== x', '=========================='])     # (more than seven: content, e.g. a heading's underline)
                if not t.startswith(('<<<<<<<', '>>>>>>>', '|||||||')) and not (t == '=======' or t.startswith('======= ')) and not (short_lines and not t.strip()):
                    return t
        nreg = max(1, nconflicts)
        for _region in range(nreg):
            ours = [side_text() for _ in range(rng.randint(1, 3))]
            anc = [side_text() for _ in range(rng.randint(1, 3))]
            theirs = [side_text() for _ in range(rng.randint(1, 3))]
            if unterminated and _region == nreg - 1:
                # the input ends (or the next section starts) inside the last region: it is shown with what there is of it
                cut = rng.choice(['ours', 'anc', 'theirs'])
                body.append('++<<<<<<< HEAD')
                if cut == 'ours':
                    ours = ours[:rng.randint(0, len(ours))]
                    anc, theirs = [], []
                    body += [' +' + t for t in ours]
                elif cut == 'anc':
                    anc = anc[:rng.randint(0, len(anc))]
                    theirs = []
                    body += [' +' + t for t in ours] + ['++||||||| merged common ancestors'] + ['++' + t for t in anc]
                else:
                    theirs = theirs[:rng.randint(0, len(theirs))]
                    body += [' +' + t for t in ours] + ['++||||||| merged common ancestors'] + ['++' + t for t in anc] + ['++======='] + ['+ ' + t for t in theirs]
                model.append(('conflict', ours, anc, theirs))
                break
            body.append('++<<<<<<< HEAD')
            body += [' +' + t for t in ours]
            if len(styles) > 1 and rng.choice(styles) == 'merge':
                anc = []       # conflict style 'merge': no section for the common ancestor
            else:
                body.append('++||||||| merged common ancestors')
                body += ['++' + t for t in anc]
            body.append('++=======')
            body += ['+ ' + t for t in theirs]
            body.append('++>>>>>>> branch')
            model.append(('conflict', ours, anc, theirs))
            for _ in range(rng.randint(0, 2)):
                t = gen.rand_text(rng, 40, allow_empty=False, tabs_ok=False)
                while t.startswith(('=======', '<<<<<<<', '>>>>>>>', '|||||||')) or (short_lines and not t.strip()):
                    t = gen.rand_text(rng, 40, allow_empty=False, tabs_ok=False)
                body.append('  ' + t)
                model.append(('line', '  ', t))
    if note and not conflict and body:
        # a '\ No newline at end of file' note in the middle of the hunk (one parent's last line)
        k = rng.randrange(1, len(body) + 1)
        body = body[:k] + ['\\ No newline at end of file'] + body[k:]
    return head + earlier + [hh(len(body), 10 * nhunks)] + body, model, path


# ---------------------------------------------------------------- git colouring of a diff

def git_colorize(lines, style='default', rng=None):
    """Reproduce git's default palette (color.ui=always) on a plain unified diff."""
    out = []
    reset = E + '[m'
    for l in lines:
        if l.startswith('diff ') or l.startswith('index ') or l.startswith('--- ') or l.startswith('+++ ') or \
                l.startswith('new file') or l.startswith('deleted file') or l.startswith('old mode') or \
                l.startswith('new mode') or l.startswith('similarity') or l.startswith('rename ') or \
                l.startswith('copy '):
            out.append(E + '[1m' + l + reset)
        elif l.startswith('@@'):
            k = l.find('@@', 2)
            if k >= 0:
                out.append(E + '[36m' + l[:k + 2] + reset + (l[k + 2:] if l[k + 2:] else ''))
            else:
                out.append(E + '[36m' + l + reset)
        elif l.startswith('-'):
            out.append(E + '[31m' + l + reset)
        elif l.startswith('+'):
            t = l
            stripped = t.rstrip(' \t')
            if style == 'ws' and len(stripped) < len(t) and len(stripped) >= 1:
                out.append(E + '[32m' + stripped + reset + E + '[41m' + t[len(stripped):] + reset)
            else:
                out.append(E + '[32m' + l + reset)
        else:
            out.append(l)
    return out


def git_colorize_combined(lines, nparents, reset='m'):
    """git's default palette on a combined diff (as `git show <merge>` with color.ui=always writes it): a line is red when
    its prefix holds a '-', green when it holds a '+', and a context line is followed by a bare reset."""
    rs = E + '[' + reset
    out = []
    in_hunk = False
    for l in lines:
        if l.startswith('diff ') or l.startswith('commit '):
            in_hunk = False
        if l.startswith('@@@'):
            in_hunk = True
            k = l.find('@@@', 3)
            k2 = k + 3
            while k >= 0 and k2 < len(l) and l[k2] == '@':
                k2 += 1
            out.append(E + '[36m' + l[:k2] + rs + l[k2:] if k >= 0 else E + '[36m' + l + rs)
        elif not in_hunk:
            if l.startswith(('diff ', 'index ', '--- ', '+++ ', 'new file', 'deleted file', 'mode ')):
                out.append(E + '[1m' + l + rs)
            else:
                out.append(l)
        else:
            prefix = l[:nparents]
            if l.startswith('\\'):
                out.append(l)
            elif '-' in prefix:
                out.append(E + '[31m' + l + rs)
            elif '+' in prefix:
                out.append(E + '[32m' + l + rs)
            else:
                out.append(l + rs)
    return out


# ---------------------------------------------------------------- mutators

BIG_NUMBERS = ['0', '4294967295', '4294967296', '18446744073709551615', '18446744073709551616',
               '99999999999999999999999999999', '2147483648',
               # around the largest signed 64-bit number (counters kept in isize)
               '9223372036854775807', '9223372036854775808', '9223372036854775809', '9223372036854775810']
ESC_FRAGMENTS = ['\x1b', '\x1b[', '\x1b[m', '\x1b[0m', '\x1b[31m', '\x1b[38;5;', '\x1b[38;2;1;2;3m', '\x1b[?25l',
                 '\x1b[1;2;3;4;5;6;7;8;9;10;11;12;13;14;15;16;17;18m', '\x1b]8;;http://x\x1b\\', '\x1b]8;;\x1b\\',
                 '\x1b]0;title\x07', '\x1b[ q', '\x1b[>0c', '\x1b(B', '\x1bM', '\x9b31m', '\x1b[K', '\x1b[0K',
                 '\x1b[3g', '\x1b[=1h', '\x1b[1;31', '\x1b]8;;x']
ODD_BYTES = [b'\xff', b'\xc3', b'\xe2\x82', b'\x00', b'\r', b'\xf0\x9f', b'\xed\xa0\x80', b'\xc0\xaf']


def mutate(rng, data):
    """data: bytes.  Returns mutated bytes (1-3 structured mutations)."""
    import re
    for _ in range(rng.choice([1, 1, 2, 3])):
        lines = data.split(b'\n')
        op = rng.randrange(17)
        if not lines:
            lines = [b'']
        k = rng.randrange(len(lines))
        if op == 0:      # truncate anywhere
            data = data[:rng.randrange(len(data) + 1)]
            continue
        elif op == 1:    # delete a line
            del lines[k]
        elif op == 2:    # duplicate a line
            lines.insert(k, lines[k])
        elif op == 3:    # swap two lines
            j = rng.randrange(len(lines))
            lines[k], lines[j] = lines[j], lines[k]
        elif op == 4:    # replace a number
            nums = list(re.finditer(rb'\d+', lines[k]))
            if nums:
                m = rng.choice(nums)
                lines[k] = lines[k][:m.start()] + rng.choice(BIG_NUMBERS).encode() + lines[k][m.end():]
        elif op == 5:    # insert escape fragment
            pos = rng.randrange(len(lines[k]) + 1)
            lines[k] = lines[k][:pos] + rng.choice(ESC_FRAGMENTS).encode('latin-1', 'replace') + lines[k][pos:]
        elif op == 6:    # insert odd bytes
            pos = rng.randrange(len(lines[k]) + 1)
            lines[k] = lines[k][:pos] + rng.choice(ODD_BYTES) + lines[k][pos:]
        elif op == 7:    # strip / repeat @
            lines[k] = lines[k].replace(b'@@', rng.choice([b'@', b'@@@', b'@@@@', b'']), 1)
        elif op == 8:    # chop the line
            lines[k] = lines[k][:rng.randrange(len(lines[k]) + 1)]
        elif op == 9:    # splice a header-ish line
            lines.insert(k, rng.choice([b'diff --git ', b'diff --git a', b'diff --git "a/x" "b/x', b'@@ foo @@',
                                        b'@@ -1 +1 @@', b'@@@ -1 -1 +1 @@@', b'@@ -0,0 +0,0 @@', b'@@ -0 +0 @@', b'@@@ -0,0 -0,0 +0,0 @@@', b'--- ', b'+++ ', b'--- "', b'+++ b/\t',
                                        b'rename from ', b'rename to', b'Binary files  and  differ', b'Submodule x',
                                        b'Submodule x 123..456:', b'commit ', b'commit deadbeef', b'index',
                                        b'<<<<<<< ', b'=======', b'>>>>>>> ', b'||||||| ', b'++<<<<<<< HEAD',
                                        b'++>>>>>>> x', b'\\ No newline at end of file', b'{', b'{"type":"match"}',
                                        b'{"type":"match","data":{"path":{"text":"a"},"lines":{"text":"x"},"line_number":0,"absolute_offset":0,"submatches":[{"match":{"text":"x"},"start":5,"end":9}]}}',
                                        b'diff --cc x', b'diff -u a b', b'Only in a: b', b'old mode 1', b'new mode',
                                        b'a.rs:0:x', b'a.rs:18446744073709551616:x', b'a.rs-5-', b'a.rs=1=x',
                                        b'deadbeef (A 2020-01-01 00:00:00 +0000 1) x', b'^deadbeef (', b'']))
        elif op == 10:   # very long line
            lines[k] = lines[k] + rng.choice([b'x', b' ', b'\t', '日'.encode(), b'ab ']) * rng.choice([100, 1000, 5000])
        elif op == 11:   # duplicate a block
            j = min(len(lines), k + rng.randint(1, 6))
            lines[k:k] = lines[k:j]
        elif op == 12:   # CRLF
            lines = [l + b'\r' for l in lines]
        elif op == 13:   # non-ascii at start of a line
            lines[k] = rng.choice(['é', '日', '😀', '́', '​']).encode() + lines[k]
        elif op == 14:   # replace first char
            if lines[k]:
                lines[k] = rng.choice([b'+', b'-', b' ', b'\\', b'@', b'\t', '日'.encode(), b'\x1b[31m-']) + lines[k][1:]
        elif op == 16:   # every coordinate of a hunk header becomes the same extreme number
            hh = [i for i, l in enumerate(lines) if l.startswith(b'@@')]
            if hh:
                i = rng.choice(hh)
                v = rng.choice(['0', '0', '1'] + BIG_NUMBERS).encode()
                lines[i] = re.sub(rb'\d+', lambda _m: v, lines[i])
        elif op == 15:   # delete a block
            j = min(len(lines), k + rng.randint(1, 6))
            del lines[k:j]
        data = b'\n'.join(lines)
    return data
