"""Crash classification shared by all checks (C03's signature function)."""
import re

PANIC_RE = re.compile(r"thread '([^']*)'(?: \(\d+\))? panicked at ([^\n]*?):(\d+):(\d+):\n([^\n]*)")
FRAME_RE = re.compile(r'^\s*\d+:\s+(.*)$')


def normalise_message(msg):
    m = msg.strip()
    if ' of `' in m:
        # slice panics quote the whole string, which may itself hold back-quotes and newlines
        m = m[:m.index(' of `')] + ' of `_`'
    m = re.sub(r'`[^`]*`', '`_`', m)
    m = re.sub(r'"[^"]*"', '"_"', m)
    m = re.sub(r"'[^']*'", "'_'", m)
    m = re.sub(r'\d+', 'N', m)
    return m[:100]


def innermost_delta_frame(stderr_text):
    for line in stderr_text.splitlines():
        m = FRAME_RE.match(line)
        if not m:
            continue
        fn = m.group(1).strip()
        if 'delta::' in fn and 'verif_hooks' not in fn and not fn.startswith('core::') \
                and not fn.startswith('std::') and not fn.startswith('alloc::'):
            fn = re.sub(r'::h[0-9a-f]{16}$', '', fn)
            fn = re.sub(r'\{\{closure\}\}', '{closure}', fn)
            return fn
    return None


def delta_frames(stderr_text):
    out = []
    for line in stderr_text.splitlines():
        m = FRAME_RE.match(line)
        if not m:
            continue
        fn = m.group(1).strip()
        if 'delta::' in fn and 'verif_hooks' not in fn and not fn.startswith(('core::', 'std::', 'alloc::')):
            fn = re.sub(r'::h[0-9a-f]{16}$', '', fn)
            out.append(fn.replace('{{closure}}', '{closure}'))
    return out


def context_frame(stderr_text):
    """First frame from another top-level module than the innermost one: tells generic assertion sites apart
    by the path that led to them."""
    fr = delta_frames(stderr_text)
    if not fr:
        return None

    def top(fn):
        m = re.search(r'delta::([a-z_]+)', fn)
        return m.group(1) if m else ''
    t0 = top(fr[0])
    for fn in fr[1:]:
        if top(fn) != t0 and top(fn) not in ('delta', 'run_app', 'main'):
            return fn
    return None


def classify(res):
    """Returns None if the execution ended normally (whatever the exit status), else a dict
    {kind, signature, detail}.  kinds: panic, unreachable, signal, abort, hang."""
    err = res.err.decode('utf-8', 'replace')
    if res.timed_out:
        return {'kind': 'timeout', 'signature': 'timeout', 'detail': 'watchdog fired'}
    m = PANIC_RE.search(err)
    if m:
        thread, fil, line, col, msg = m.groups()
        fn = innermost_delta_frame(err) or fil
        if 'This should not be possible' in err or 'delta_unreachable' in err:
            kind = 'unreachable'
        else:
            kind = 'panic'
        ctx = context_frame(err)
        sig = '%s|%s|%s' % (kind, fn, normalise_message(msg))
        if ctx:
            sig += '|via:' + ctx
        return {'kind': kind, 'signature': sig,
                'detail': '%s:%s: %s' % (fil, line, msg[:200]), 'file': fil}
    if 'This should not be possible' in err:
        # delta_unreachable prints and exits with error code
        first = [l for l in err.splitlines() if l.strip()]
        msg = first[0] if first else ''
        return {'kind': 'unreachable', 'signature': 'unreachable|%s' % normalise_message(msg),
                'detail': err[:300]}
    if res.signal is not None:
        return {'kind': 'signal', 'signature': 'signal|%d' % res.signal, 'detail': err[-300:]}
    if 'memory allocation of' in err or 'fatal runtime error' in err or 'stack overflow' in err:
        return {'kind': 'abort', 'signature': 'abort|' + normalise_message(err.strip().splitlines()[-1]),
                'detail': err[-300:]}
    return None
