"""Mixed workloads shared by the relational monitors (C08, C09, C15, C19)."""
from . import corpus, gen


def diff_case(rng, kinds=None, allow_sbs=True, long_lines=True):
    """Returns dict(kind, lines (list of str), opts, meta, view)."""
    view = 'sbs' if (allow_sbs and rng.random() < 0.45) else 'unified'
    if view == 'sbs':
        opts, meta = gen.sbs_options(rng)
    else:
        opts, meta = gen.unified_options(rng)
    maxlen = rng.choice([40, 40, 90, 200]) if long_lines else 40
    d = gen.gen_diff(rng, maxlen=maxlen, simple_paths=rng.random() < 0.5, kinds=kinds)
    return {'kind': 'diff', 'diff': d, 'lines': d.lines(), 'opts': opts, 'meta': meta, 'view': view}


def log_case(rng):
    c = diff_case(rng)
    head, h = corpus.commit_header(rng)
    c['lines'] = head + c['lines']
    c['kind'] = 'log'
    c['commit'] = h
    return c


def grep_case(rng):
    m = corpus.gen_grep_model(rng)
    fmt = rng.choice(['plain', 'color', 'json'])
    if fmt == 'plain':
        text = corpus.grep_text_plain(m, True)
    elif fmt == 'color':
        text = corpus.grep_text_git_color(m, True)
    elif rng.random() < 0.3:
        # rg --json --multiline: consecutive matching lines of a file in one record
        m = [(p_, [(hits[0][0] + i, 'match', code, subs) for i, (_ln, _kind, code, subs) in enumerate(hits)]) for p_, hits in m]
        text = corpus.rg_json_text_multiline(m, rng)
    else:
        text = corpus.rg_json_text(m)
    opts = {'--paging': 'never'}
    if rng.random() < 0.5:
        opts['--grep-output-type'] = rng.choice(['ripgrep', 'classic'])
    if rng.random() < 0.3:
        opts['--navigate'] = True
    if rng.random() < 0.3:
        opts['--width'] = rng.choice([40, 80, 120])
    # plain and git-coloured grep lines are only recognised when the calling process is a grep command
    parent = None
    if fmt != 'json':
        parent = rng.choice([['git', 'grep', '-n', 'x'], ['git', 'grep', '-n', 'x'], ['rg', '-n', 'x']]) if fmt == 'plain' else ['git', 'grep', '-n', 'x']
    return {'kind': 'grep-' + fmt, 'parent': parent, 'model': m, 'lines': text.rstrip('\n').split('\n'), 'opts': opts, 'meta': {'classes': ['grep-' + fmt]}, 'view': 'grep'}


def blame_case(rng):
    m = corpus.gen_blame_model(rng)
    text = corpus.blame_text(m)
    opts = {'--paging': 'never', '--blame-timestamp-output-format': '%Y-%m-%d %H:%M'}
    if rng.random() < 0.4:
        opts['--blame-palette'] = rng.choice(['#102030 #203040', '#111111 #222222 #333333', 'red blue green'])
    if rng.random() < 0.3:
        opts['--blame-separator-format'] = rng.choice(['│{n:^4}│', '{n:>3} ', 'none', '{n:^4_block}'])
    if rng.random() < 0.3:
        opts['--width'] = rng.choice([60, 100])
    if rng.random() < 0.5:
        # widths and precisions on the fields (with hyperlinks the commit field also carries a link)
        opts['--blame-format'] = rng.choice(['{commit:<12}¦{author:<10}', '{commit:<8.6} {author}', '{author:<10.5}|{commit:>14.8}', '{timestamp:<18}{commit:^16}',
                                             '{commit:<9.7}{author:>12.3}{timestamp}'])
    parent = ['git', 'blame', rng.choice(['src/f.rs', 'a.py', 'Makefile'])] if rng.random() < 0.5 else None
    return {'kind': 'blame', 'parent': parent, 'model': m, 'lines': text.rstrip('\n').split('\n'), 'opts': opts, 'meta': {'classes': ['blame']}, 'view': 'blame'}


def any_case(rng):
    r = rng.random()
    if r < 0.6:
        return diff_case(rng)
    if r < 0.75:
        return log_case(rng)
    if r < 0.88:
        return grep_case(rng)
    return blame_case(rng)


def parent_kw(case):
    """keyword arguments for runner.run_delta: the calling process this input comes from, when that matters"""
    return {'parent_argv': case['parent']} if case.get('parent') else {}


def data_of(case):
    return ('\n'.join(case['lines']) + '\n').encode('utf-8')
