"""Small code snippets in several languages (for syntax-highlighting workloads)."""

SNIPPETS = {
    'rs': ['use std::io;', '', 'fn main() -> io::Result<()> {', '    let mut x: u32 = 42; // answer', '    let s = "hello \\"w\\"";',
           '    for i in 0..10 { println!("{} {}", i, s); }', '    match x { 0 => {}, _ => x += 1 }', '    Ok(())', '}', "const C: char = 'a';"],
    'py': ['import os, sys', '', 'class A(object):', '    """doc"""', '    def f(self, x=1, *a, **k):', "        return [i for i in range(x) if i % 2]",
           '    @staticmethod', '    def g(): pass  # comment', 'if __name__ == "__main__":', '    print(f"{A().f(3)!r}")', 'x = 0x1f + 1e3j'],
    'c': ['#include <stdio.h>', '#define MAX(a,b) ((a)>(b)?(a):(b))', 'static int f(const char *s) {', '    int n = 0; /* count */',
          '    while (*s++) n++;', '    return n;', '}', 'int main(void) { printf("%d\\n", f("abc")); return 0; }', 'struct P { int x, y; };'],
    'js': ['const a = require("a");', 'function f(x, y = 2) {', '  return x => x * y; // arrow', '}', 'class B extends A { constructor() { super(); this.z = `t${1}`; } }',
           'let o = {k: [1, 2.5, null], "s": /re+/g};', 'export default f;', 'async function g() { await f(1); }'],
    'go': ['package main', 'import "fmt"', 'type T struct { A int `json:"a"` }', 'func main() {', '\tvar m map[string]int', '\tfor i := 0; i < 3; i++ { fmt.Println(i, m) }',
           '\tdefer func() { recover() }()', '}', 'const Pi = 3.14'],
    'java': ['package a.b;', 'import java.util.*;', 'public class Main {', '    private static final int N = 10;', '    public static void main(String[] args) {',
             '        List<String> l = new ArrayList<>();', '        for (String s : l) System.out.println(s + N);', '    }', '}', '// end'],
    'rb': ['require "json"', 'class Foo < Bar', '  attr_reader :x', '  def initialize(x) @x = x end', '  def each; yield 1; end', 'end',
           'puts Foo.new(1).x.to_s + "#{1 + 2}"', ':sym => %w[a b]'],
    'sh': ['#!/bin/sh', 'set -e', 'for f in *.txt; do', '  echo "$f" | sed "s/a/b/" > "${f%.txt}.out"', 'done', 'if [ -n "$1" ]; then exit 1; fi', "x=$(ls | wc -l) # count"],
    'html': ['<!DOCTYPE html>', '<html lang="en">', '<head><title>T</title></head>', '<body class="a b">', '  <p id="x">Hello &amp; bye</p>', '  <!-- comment -->',
             '  <script>var x = 1;</script>', '</body>', '</html>'],
    'css': ['body { margin: 0; color: #333; }', '.a > .b:hover { background: url("x.png") no-repeat; }', '@media (max-width: 600px) { .c { display: none } }', '/* c */'],
    'json': ['{', '  "name": "x",', '  "n": [1, 2.5, true, null],', '  "o": {"k": "v"}', '}'],
    'md': ['# Title', '', 'Some *emph* and **bold** text with `code`.', '', '- item 1', '- item 2', '', '```rust', 'fn x() {}', '```', '[link](http://x)'],
    'yaml': ['key: value', 'list:', '  - a', '  - b: 1', 'str: "quoted # not comment" # comment', 'n: 1.5'],
    'toml': ['[package]', 'name = "x"', 'version = "0.1.0"', 'deps = ["a", "b"]', '# comment'],
    'hs': ['module Main where', 'import Data.List (sort)', 'main :: IO ()', 'main = print (sort [3,1,2]) -- comment', 'data T = A | B Int deriving Show'],
    'Makefile': ['CC = gcc', 'all: main.o', '\t$(CC) -o main main.o', '.PHONY: clean', 'clean:', '\trm -f *.o # clean'],
    'txt': ['plain text line one', 'another line, with punctuation.', 'third'],
    'xyzunknown': ['fn not(a) { language }', 'just words here', '12345'],
}

NAMES = {
    'rs': ['a.rs', 'zz.rs', 'src/deep/lib.rs'], 'py': ['x.py', 'pkg/mod.py'], 'c': ['m.c', 'src/util.c'], 'js': ['a.js', 'web/app.js'],
    'go': ['main.go', 'p/q.go'], 'java': ['Main.java', 'a/B.java'], 'rb': ['f.rb', 'lib/g.rb'], 'sh': ['run.sh', 'bin/x.sh'],
    'html': ['i.html', 'w/p.html'], 'css': ['s.css', 'a/b.css'], 'json': ['d.json', 'x/y.json'], 'md': ['R.md', 'doc/n.md'],
    'yaml': ['c.yaml', 'k/v.yaml'], 'toml': ['C.toml', 'a/b.toml'], 'hs': ['M.hs', 'src/N.hs'],
    'Makefile': ['Makefile', 'sub/Makefile', 'a/b/Makefile'], 'txt': ['n.txt', 'a/b.txt'], 'xyzunknown': ['f.xyzunknown', 'g/h.xyzunknown'],
}
