"""Check engine: plans work items, runs them on a process pool, aggregates monitor outcomes into a
three-valued verdict, matches known findings, writes evidence and replay files."""
import base64
import hashlib
import importlib
import json
import multiprocessing
import os
import random
import sys
import time
import traceback

from . import build, crash, runner

VERIF = runner.VERIF
NPROC = int(os.environ.get('VERIF_JOBS', '16'))


# ------------------------------------------------------------------ outcomes

def held(sig=None, nontrivial=True, counters=None, sets=None, sample=None):
    return {'status': 'held', 'sig': sig, 'nontrivial': nontrivial, 'counters': counters or {},
            'sets': sets or {}, 'sample': sample}


def inconclusive(why, counters=None, sets=None, sample=None):
    return {'status': 'inconclusive', 'why': why, 'sig': None, 'nontrivial': False,
            'counters': counters or {}, 'sets': sets or {}, 'sample': sample}


def violated(key, what, expected=None, observed=None, run=None, extra=None, counters=None, sets=None):
    """key: stable signature of the failure used for known-finding matching."""
    v = {'key': key, 'what': what, 'expected': expected, 'observed': observed, 'extra': extra}
    if run is not None:
        v['run'] = describe_run(run)
    return {'status': 'violated', 'sig': None, 'nontrivial': False, 'counters': counters or {},
            'sets': sets or {}, 'sample': None, 'violation': v}


def transitions(trace):
    """Coverage meter from hook 1: the set of (previous state kind -> state kind) pairs of the line state machine."""
    out = set()
    prev = 'Start'
    for l in trace or []:
        if l.startswith('line ') or l.startswith('end '):
            k = l.split()[1]
            out.add('%s>%s' % (prev, k if l.startswith('line ') else 'End'))
            prev = k
    return sorted(out)


def describe_run(res):
    d = {'args': res.args, 'env': res.env, 'parent_argv': getattr(res, 'parent_argv', None), 'mode': res.mode, 'pty_size': list(res.pty_size),
         'rc': res.rc, 'signal': res.signal, 'timed_out': res.timed_out,
         'stdin_b64': base64.b64encode(res.stdin or b'').decode('ascii') if len(res.stdin or b'') < 200000 else None,
         'stdin_len': len(res.stdin or b''),
         'stderr_tail': res.err.decode('utf-8', 'replace')[-1500:],
         'stdout_head_b64': base64.b64encode(res.out[:6000]).decode('ascii')}
    return d


def crash_outcome(res, prop_id, counters=None):
    """Shared handling of an execution that crashed while another property was being checked.
    Returns None when the execution did not crash."""
    c = crash.classify(res)
    if c is None:
        return None
    if c['kind'] == 'timeout':
        return inconclusive('watchdog: ' + c['detail'], counters=counters)
    from . import findings
    if findings.lookup('C03', c['signature']) is not None:
        return inconclusive('crash listed as known finding of C03: ' + c['signature'], counters=counters)
    return violated('crash:' + c['signature'], 'execution crashed, so the property cannot have held on it: '
                    + c['detail'], run=res, counters=counters)


# ------------------------------------------------------------------ context

class Ctx(object):
    def __init__(self, prop_id, tier, seed):
        self.prop_id = prop_id
        self.tier = tier
        self.seed = seed
        self.scale = float(os.environ.get('VERIF_SCALE', '1'))

    def n(self, quick, thorough):
        v = quick if self.tier == 'quick' else thorough
        return max(1, int(v * self.scale))

    def rng(self, *salt):
        return random.Random(stable_hash((self.seed,) + salt))


def stable_hash(obj):
    h = hashlib.sha256(repr(obj).encode('utf-8')).digest()
    return int.from_bytes(h[:8], 'big')


def item_rng(item_seed, *salt):
    return random.Random(stable_hash((item_seed,) + salt))


# ------------------------------------------------------------------ worker

_MOD = None


def _init_worker(modname, work_base):
    global _MOD
    os.environ['VERIF_WORK'] = work_base
    _MOD = importlib.import_module(modname)
    if hasattr(_MOD, 'init_worker'):
        _MOD.init_worker()


def _work(item):
    try:
        outs = _MOD.run_item(item)
        if isinstance(outs, dict):
            outs = [outs]
        for o in outs:
            if o.get('status') == 'violated':
                o['violation']['item'] = item
        return outs
    except Exception:
        return [{'status': 'inconclusive', 'why': 'harness exception: ' + traceback.format_exc()[-1500:],
                 'sig': None, 'nontrivial': False, 'counters': {}, 'sets': {}, 'sample': None,
                 'harness_error': True, 'item': item}]


# ------------------------------------------------------------------ main loop

def run_check(prop_id, tier, seed, replay=None):
    from . import findings
    modname = 'vlib.props.%s' % prop_id.lower()
    mod = importlib.import_module(modname)
    t0 = time.time()
    ctx = Ctx(prop_id, tier, seed)
    work_base = runner.workdir()  # creates VERIF_WORK
    work_base = os.environ['VERIF_WORK']
    try:
        try:
            build.ensure('hooks')
            for v in getattr(mod, 'EXTRA_VARIANTS', {}).get(tier, []):
                build.ensure(v)
        except build.BuildError as e:
            print('HARNESS-ERROR property=%s build failed: %s' % (prop_id, e))
            return 2
        if hasattr(mod, 'prepare'):
            mod.prepare(ctx)
        if replay is not None:
            return _replay(mod, prop_id, replay)
        items = list(mod.plan(ctx))
        agg = Aggregate(prop_id)
        deadline = t0 + float(os.environ.get('VERIF_MAX_S', '0') or 0) if os.environ.get('VERIF_MAX_S') else None
        serial = getattr(mod, 'SERIAL', False)
        if serial:
            _init_worker(modname, work_base)
            for it in items:
                for o in _work(it):
                    agg.add(o)
        else:
            chunk = getattr(mod, 'CHUNK', 1)
            pool = multiprocessing.Pool(min(NPROC, max(1, len(items))), _init_worker, (modname, work_base))
            try:
                for outs in pool.imap_unordered(_work, items, chunk):
                    for o in outs:
                        agg.add(o)
                    if deadline and time.time() > deadline:
                        agg.note('stopped at VERIF_MAX_S')
                        pool.terminate()
                        break
            finally:
                pool.close()
                pool.terminate()
                pool.join()
        if hasattr(mod, 'finalize'):
            for o in mod.finalize(ctx, agg) or []:
                agg.add(o)
        floors = mod.floors(ctx, agg) if hasattr(mod, 'floors') else []
        rc = agg.report(mod, ctx, time.time() - t0, floors)
        return rc
    finally:
        runner.cleanup()


class Aggregate(object):
    def __init__(self, prop_id):
        self.prop_id = prop_id
        self.evaluations = 0
        self.held = 0
        self.inconclusive = 0
        self.inconclusive_why = {}
        self.sigs = set()
        self.counters = {}
        self.sets = {}
        self.samples = []
        self.violations = []
        self.harness_errors = []
        self.notes = []

    def note(self, s):
        self.notes.append(s)

    def add(self, o):
        self.evaluations += int(o.get('executions', 1))
        for k, v in (o.get('counters') or {}).items():
            self.counters[k] = self.counters.get(k, 0) + v
        for k, vals in (o.get('sets') or {}).items():
            self.sets.setdefault(k, set()).update(vals)
        st = o['status']
        if st == 'held':
            self.held += 1
            if o.get('nontrivial') and o.get('sig') is not None:
                self.sigs.add(o['sig'])
            if o.get('sample') is not None and len(self.samples) < 6:
                self.samples.append(o['sample'])
        elif st == 'inconclusive':
            self.inconclusive += 1
            why = (o.get('why') or '')[:160]
            if o.get('harness_error'):
                self.harness_errors.append(o)
            short = why.split('\n')[0][:120]
            self.inconclusive_why[short] = self.inconclusive_why.get(short, 0) + 1
        elif st == 'violated':
            self.violations.append(o['violation'])

    def report(self, mod, ctx, wall, floors):
        from . import findings
        prop_id = self.prop_id
        known = {}
        unlisted = []
        for v in self.violations:
            f = findings.lookup(prop_id, v['key'])
            if f is not None:
                known.setdefault(v['key'], []).append(v)
            else:
                unlisted.append(v)
        rc = 0
        for key, vs in sorted(known.items()):
            f = findings.lookup(prop_id, key)
            print('KNOWN-FINDING: property=%s %s [%s] (%d occurrence(s) in this run)'
                  % (prop_id, f.get('what', ''), key, len(vs)))
        # unlisted violations: group by key, one replay per key (max 10)
        bykey = {}
        for v in unlisted:
            bykey.setdefault(v['key'], []).append(v)
        rdir = os.path.join(VERIF, 'replays', prop_id)
        n = 0
        for key, vs in sorted(bykey.items()):
            if n >= int(os.environ.get("VERIF_MAX_REPLAYS", "25")):
                break
            os.makedirs(rdir, exist_ok=True)
            v = min(vs, key=lambda x: (x.get('run') or {}).get('stdin_len', 0))
            path = os.path.join(rdir, '%s-%d-%s.json' % (ctx.tier, ctx.seed, hashlib.sha1(key.encode()).hexdigest()[:10]))
            with open(path, 'w') as f:
                json.dump({'property': prop_id, 'tier': ctx.tier, 'seed': ctx.seed, 'occurrences': len(vs),
                           'violation': v}, f, indent=1, default=repr)
            print('VIOLATION property=%s replay=%s' % (prop_id, path))
            print('  what: %s' % (v['what'][:300],))
            print('  key : %s' % key)
            n += 1
            rc = 1
        if self.harness_errors:
            for o in self.harness_errors[:3]:
                sys.stderr.write('HARNESS-EXCEPTION: %s\n' % o.get('why'))
        conclusive = self.held + len(self.violations)
        problems = list(floors)
        if self.harness_errors:
            problems.append('%d work items raised a harness exception' % len(self.harness_errors))
        if self.evaluations and self.inconclusive > 0.25 * self.evaluations and self.inconclusive > 5:
            problems.append('more than 25%% of the executions were inconclusive (%d of %d)'
                            % (self.inconclusive, self.evaluations))
        if conclusive == 0:
            problems.append('no conclusive observation at all')
        if len(self.sigs) < 2:
            problems.append('fewer than 2 distinct non-trivial cases')
        if rc == 0 and problems:
            rc = 2
            for p in problems:
                print('INCONCLUSIVE property=%s %s' % (prop_id, p))
        cov = {
            'evaluations': self.evaluations,
            'distinct_nontrivial': len(self.sigs),
            'rule': getattr(mod, 'RULE', ''),
            'samples': self.samples[:6] or [{'note': 'no sample recorded'}],
            'held': self.held,
            'inconclusive': self.inconclusive,
            'inconclusive_reasons': dict(sorted(self.inconclusive_why.items(), key=lambda kv: -kv[1])[:12]),
            'violations_unlisted': len(unlisted),
            'violations_known': sum(len(v) for v in known.values()),
            'known_finding_keys': sorted(known.keys()),
            'counters': dict(sorted(self.counters.items())),
            'observed_sets': {k: sorted(map(str, v))[:80] for k, v in sorted(self.sets.items())},
            'observed_set_sizes': {k: len(v) for k, v in sorted(self.sets.items())},
            'floor_problems': problems,
            'notes': self.notes,
        }
        if getattr(mod, 'EXHAUSTIVE', None):
            cov['exhaustive'] = bool(mod.EXHAUSTIVE(ctx)) if callable(mod.EXHAUSTIVE) else bool(mod.EXHAUSTIVE)
            cov['exhaustive_scope'] = getattr(mod, 'EXHAUSTIVE_SCOPE', '')
        ev = {
            'property_id': prop_id,
            'tier': ctx.tier,
            'seed': ctx.seed,
            'level': getattr(mod, 'LEVEL', 'exploration'),
            'coverage': cov,
            'assumptions': getattr(mod, 'ASSUMPTIONS', []),
            'wall_s': round(wall, 2),
            'violations': len(unlisted),
            'verdict': 'violated' if rc == 1 else ('inconclusive' if rc == 2 else 'held on what was observed'),
        }
        # (tools/try_seeded.sh points this elsewhere: evidence of a run against a deliberately broken tree is not kept)
        evdir = os.environ.get('VERIF_EVIDENCE_DIR') or os.path.join(VERIF, 'evidence')
        os.makedirs(evdir, exist_ok=True)
        with open(os.path.join(evdir, prop_id + '.json'), 'w') as f:
            json.dump(ev, f, indent=1, default=repr, sort_keys=False)
        print('%s tier=%s seed=%d: %d executions, %d held, %d inconclusive, %d violations (%d known), '
              '%d distinct non-trivial cases, %.1fs -> %s'
              % (prop_id, ctx.tier, ctx.seed, self.evaluations, self.held, self.inconclusive,
                 len(self.violations), sum(len(v) for v in known.values()), len(self.sigs), wall, ev['verdict']))
        return rc


def _replay(mod, prop_id, path):
    from . import findings
    with open(path) as f:
        rep = json.load(f)
    item = rep['violation'].get('item')
    if item is None:
        print('replay file has no work item')
        return 2
    if isinstance(item, list):
        item = tuple(item)
    if hasattr(mod, 'init_worker'):
        mod.init_worker()
    outs = mod.run_item(_tuplify(item))
    if isinstance(outs, dict):
        outs = [outs]
    rc = 0
    for o in outs:
        if o['status'] == 'violated':
            v = o['violation']
            if findings.lookup(prop_id, v['key']) is not None:
                print('KNOWN-FINDING: property=%s %s' % (prop_id, v['key']))
                continue
            print('VIOLATION property=%s replay=%s' % (prop_id, path))
            print('  what: %s' % v['what'][:400])
            print('  expected: %s' % str(v.get('expected'))[:400])
            print('  observed: %s' % str(v.get('observed'))[:400])
            rc = 1
    if rc == 0:
        print('replay: no violation reproduced')
    return rc


def _tuplify(x):
    if isinstance(x, list):
        return tuple(_tuplify(y) for y in x)
    return x


def main(argv):
    import argparse
    ap = argparse.ArgumentParser()
    ap.add_argument('prop')
    ap.add_argument('--tier', default=os.environ.get('VERIF_TIER', 'quick'))
    ap.add_argument('--seed', type=int, default=None)
    ap.add_argument('--replay', default=None)
    a = ap.parse_args(argv)
    seed = a.seed if a.seed is not None else int(os.environ.get('VERIF_SEED', '1') or 1)
    tier = a.tier if a.tier in ('quick', 'thorough') else 'quick'
    try:
        rc = run_check(a.prop.upper(), tier, seed, replay=a.replay)
    except Exception:
        traceback.print_exc()
        print('HARNESS-ERROR property=%s unexpected exception' % a.prop.upper())
        rc = 2
    return rc
