# sourced: build environment for the `hooks` variant
export CARGO_NET_OFFLINE=true
export CARGO_PROFILE_RELEASE_OVERFLOW_CHECKS=true
export CARGO_PROFILE_RELEASE_DEBUG_ASSERTIONS=true
export CARGO_PROFILE_RELEASE_DEBUG=1
export RUSTFLAGS="--cfg dandavison_delta_verif --check-cfg cfg(dandavison_delta_verif)"
export CARGO_TARGET_DIR=/verif/target/hooks
